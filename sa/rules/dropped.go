package rules

import (
	"encoding/json"
	"fmt"
	"go/token"
	"go/types"
	"os"
	"path/filepath"
	"sort"
	"strings"

	"golang.org/x/tools/go/ssa"

	"frpsa/engine"
)

// checkDroppedErrors: "errors of the repository's own functions are not newly dropped". For every call to a function of
// this module whose last result is an error, the error must be used (tested, returned, stored). The call sites that
// drop it on the confirmed tree were read one by one and are frozen in golden/dropped_errors.json as
// (calling package → callee) with their count; cleanup calls (Close / GracefulClose) are not counted. A new pair, or
// more drops of a tabled pair, is a violation: the usual way an error-handling slip enters (an `if err != nil` removed
// while the call stays, `_ =` added to silence a linter, a result assigned and never looked at).
func checkDroppedErrors(c *engine.Ctx, rule string, pkgs ...string) {
	c.Rule(rule, "in "+strings.Join(pkgs, ", ")+": the error result of a call to a function of this module is used; the drops confirmed by reading are tabled per (calling package → callee) in golden/dropped_errors.json and may not grow")
	p := c.P
	errT := types.Universe.Lookup("error").Type()
	inScope := func(path string) bool {
		rel := strings.TrimPrefix(path, engine.ModPath+"/")
		for _, q := range pkgs {
			if q == "*" || rel == q || strings.HasPrefix(rel, q+"/") {
				return true
			}
		}
		return false
	}
	type drop struct {
		pos token.Pos
		fn  string
	}
	found := map[string][]drop{}
	calls := 0
	for _, f := range p.RepoFuncs() {
		if f.Pkg == nil || !inScope(f.Pkg.Pkg.Path()) {
			continue
		}
		f := f
		engine.ForEachInstr(f, func(in ssa.Instruction) {
			call, ok := in.(*ssa.Call)
			if !ok {
				return
			}
			o := engine.CalleeObj(call)
			if o == nil || o.Pkg() == nil || !engine.IsRepoPkg(o.Pkg().Path()) {
				return
			}
			if o.Name() == "Close" || o.Name() == "GracefulClose" {
				return
			}
			sig, _ := o.Type().(*types.Signature)
			if sig == nil || sig.Results().Len() == 0 || !types.Identical(sig.Results().At(sig.Results().Len()-1).Type(), errT) {
				return
			}
			calls++
			used := false
			if refs := call.Referrers(); refs != nil {
				for _, r := range *refs {
					switch x := r.(type) {
					case *ssa.DebugRef:
					case *ssa.Extract:
						if x.Index == sig.Results().Len()-1 && x.Referrers() != nil {
							for _, u := range *x.Referrers() {
								if _, d := u.(*ssa.DebugRef); !d {
									used = true
								}
							}
						}
					default:
						if sig.Results().Len() == 1 {
							used = true
						}
					}
				}
			}
			if used {
				return
			}
			k := strings.TrimPrefix(f.Pkg.Pkg.Path(), engine.ModPath+"/") + " -> " + strings.TrimPrefix(o.Pkg().Path(), engine.ModPath+"/") + "." + o.Name()
			found[k] = append(found[k], drop{in.Pos(), p.FuncName(f)})
		})
	}
	path := filepath.Join(verifDirOf(), "golden", "dropped_errors.json")
	golden := map[string]int{}
	if b, err := os.ReadFile(path); err == nil {
		_ = json.Unmarshal(b, &golden)
	}
	if os.Getenv("FRPSA_WRITE_GOLDEN") == "1" {
		for k, v := range found {
			if len(v) > golden[k] {
				golden[k] = len(v)
			}
		}
		b, _ := json.MarshalIndent(golden, "", " ")
		_ = os.WriteFile(path, b, 0o644)
	}
	var keys []string
	for k := range found {
		keys = append(keys, k)
	}
	sort.Strings(keys)
	for _, k := range keys {
		ds := found[k]
		allowed := golden[k]
		var facts []string
		for _, d := range ds {
			facts = append(facts, d.fn+" at "+p.Pos(d.pos))
		}
		if len(ds) > allowed {
			c.Violate("dropped:"+k, ds[len(ds)-1].pos, facts, "the error of %s is dropped at %d site(s) of package %s, %d confirmed: a failure of that call now goes unnoticed (is the result still tested?)",
				k[strings.Index(k, "-> ")+3:], len(ds), k[:strings.Index(k, " ->")], allowed)
		} else {
			c.Hold("dropped:"+k, ds[0].pos, len(ds), facts, "tabled drop(s): %d of %d allowed", len(ds), allowed)
		}
	}
	c.Check(calls >= 10, "dropped:calls-seen", token.NoPos, calls, nil, fmt.Sprintf("positive control: %d calls to error-returning functions of this module examined", calls))
	c.Floor(calls, 10)
}
