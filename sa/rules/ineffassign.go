package rules

import (
	"fmt"
	"go/ast"
	"go/importer"
	"go/parser"
	"go/token"
	"go/types"
	"os"
	"strings"
	"time"

	"golang.org/x/tools/go/ssa"

	"frpsa/engine"
)

// checkLostErrors: "an error that was computed is looked at". Syntax + types rule over the repository's own packages:
// an assignment to a variable of type error (`err = …`, `err := …`, also as part of a tuple assignment) is a violation
// when that variable is never read afterwards — not later in its scope and, for an assignment inside a loop, nowhere in
// that loop. It covers the three classic slips: the inner `err :=` that shadows the named result and is then assigned
// (the function returns the outer nil), the `err = ErrX` without `return` that falls through to `return nil`, and the
// result that is assigned and forgotten. `_ =` is not an assignment to a variable (those drops are C16.R14's table).
//
// Expected count on the confirmed tree is zero, so the matcher is exercised on an embedded positive example on every run.
func checkLostErrors(c *engine.Ctx, rule string, pkgs ...string) {
	c.Rule(rule, "in "+strings.Join(pkgs, ", ")+": a value assigned to an error variable is read afterwards (no assignment to a shadowing err, no `err = …` that falls through to `return nil`)")
	p := c.P
	inScope := func(path string) bool {
		rel := strings.TrimPrefix(path, engine.ModPath+"/")
		for _, q := range pkgs {
			if q == "*" || rel == q || strings.HasPrefix(rel, q+"/") {
				return true
			}
		}
		return false
	}
	// positive control
	ctl := lostErrorsIn(controlFset, []*ast.File{controlFile}, controlInfo)
	c.Check(len(ctl) == 2, "lost-error-matcher", token.NoPos, len(ctl), nil, "positive control: the embedded example yields its 2 lost assignments (found %d)", len(ctl))
	files, funcs := 0, 0
	for _, pk := range p.Pkgs {
		if pk.Types == nil || !engine.IsRepoPkg(pk.PkgPath) || !inScope(pk.PkgPath) || pk.TypesInfo == nil {
			continue
		}
		var fs []*ast.File
		for _, f := range pk.Syntax {
			name := p.Fset.Position(f.Pos()).Filename
			if strings.HasSuffix(name, "_test.go") {
				continue
			}
			fs = append(fs, f)
			files++
			for _, d := range f.Decls {
				if _, ok := d.(*ast.FuncDecl); ok {
					funcs++
				}
			}
		}
		for _, l := range lostErrorsIn(p.Fset, fs, pk.TypesInfo) {
			c.Violate(fmt.Sprintf("%s>lost-error@%s", strings.TrimPrefix(pk.PkgPath, engine.ModPath+"/"), l.fn), l.pos, nil,
				"the error assigned to %q here is never read afterwards%s: the failure is lost and the function goes on (or returns) as if nothing happened", l.name, l.why)
		}
	}
	// the same on the SSA form, which is path-exact where the syntax rule is lexical: an error value that was built or
	// loaded (a sentinel Err… variable, fmt.Errorf / errors.New) and has no use at all — the assignment it fed was
	// overwritten or never read on every path (`err = ErrX` followed by `return nil`, the shadowed `err` of a recover)
	errT := types.Universe.Lookup("error").Type()
	var unused func(v ssa.Value, d int) bool
	unused = func(v ssa.Value, d int) bool {
		refs := v.Referrers()
		if refs == nil || d > 3 {
			return false
		}
		for _, r := range *refs {
			switch x := r.(type) {
			case *ssa.DebugRef:
			case *ssa.ChangeInterface:
				if !unused(x, d+1) {
					return false
				}
			case *ssa.MakeInterface:
				if !unused(x, d+1) {
					return false
				}
			default:
				return false
			}
		}
		return true
	}
	for _, f := range p.RepoFuncs() {
		if f.Pkg == nil || !inScope(f.Pkg.Pkg.Path()) {
			continue
		}
		f := f
		engine.ForEachInstr(f, func(in ssa.Instruction) {
			v, ok := in.(ssa.Value)
			if !ok {
				return
			}
			what := ""
			switch x := in.(type) {
			case *ssa.UnOp:
				if g, ok := x.X.(*ssa.Global); ok && x.Op == token.MUL && types.Identical(x.Type(), errT) {
					what = "the sentinel error " + g.Name()
				}
			case *ssa.Call:
				if o := engine.CalleeObj(x); o != nil && o.Pkg() != nil && ((o.Pkg().Path() == "fmt" && o.Name() == "Errorf") || (o.Pkg().Path() == "errors" && o.Name() == "New")) {
					what = "the error built by " + o.Pkg().Name() + "." + o.Name()
				}
			}
			if what == "" || !unused(v, 0) {
				return
			}
			c.Violate(fmt.Sprintf("%s>unused-error@%s", strings.TrimPrefix(f.Pkg.Pkg.Path(), engine.ModPath+"/"), p.FuncName(f)), in.Pos(), nil,
				"%s is produced here and used on no path: the assignment it belongs to is overwritten or never read (an error path that falls through to a nil return, or an assignment to a shadowing variable)", what)
		})
	}
	// dead stores into error cells (named results of functions with defers, captured variables): a non-nil error is
	// stored and, on every path from there, the cell is overwritten (or the function returns) before anything reads it
	for _, f := range p.RepoFuncs() {
		if f.Pkg == nil || !inScope(f.Pkg.Pkg.Path()) {
			continue
		}
		f := f
		engine.ForEachInstr(f, func(in ssa.Instruction) {
			st, ok := in.(*ssa.Store)
			if !ok {
				return
			}
			al, ok := st.Addr.(*ssa.Alloc)
			if !ok || !types.Identical(engine.Deref(al.Type()), errT) || engine.IsNilConst(st.Val) {
				return
			}
			if deadStore(st, al) {
				c.Violate(fmt.Sprintf("%s>dead-error-store@%s", strings.TrimPrefix(f.Pkg.Pkg.Path(), engine.ModPath+"/"), p.FuncName(f)), st.Pos(), nil,
					"the error stored into %q here is overwritten or dropped on every path before anything reads it (a missing `return` after `err = …`): the failure is reported as success", al.Comment)
			}
		})
	}
	c.Hold("lost-error-scan", token.NoPos, funcs, []string{fmt.Sprintf("%d files, %d function declarations scanned", files, funcs)}, "no error value is assigned and then never read")
	c.Floor(funcs, 10)
}

type lostErr struct {
	pos  token.Pos
	name string
	fn   string
	why  string
}

func lostErrorsIn(fset *token.FileSet, files []*ast.File, info *types.Info) []lostErr {
	var out []lostErr
	errT := types.Universe.Lookup("error").Type()
	for _, file := range files {
		for _, d := range file.Decls {
			fd, ok := d.(*ast.FuncDecl)
			if !ok || fd.Body == nil {
				continue
			}
			fname := fd.Name.Name
			if fd.Recv != nil && len(fd.Recv.List) > 0 {
				fname = types.ExprString(fd.Recv.List[0].Type) + "." + fname
			}
			// named results of the outermost function and of every literal
			// collect all uses (reads) of every object: identifiers that are not the LHS of an assignment
			lhs := map[*ast.Ident]bool{}
			ast.Inspect(fd.Body, func(n ast.Node) bool {
				if as, ok := n.(*ast.AssignStmt); ok {
					for _, l := range as.Lhs {
						if id, ok := l.(*ast.Ident); ok {
							lhs[id] = true
						}
					}
				}
				return true
			})
			reads := map[types.Object][]token.Pos{}
			ast.Inspect(fd, func(n ast.Node) bool {
				id, ok := n.(*ast.Ident)
				if !ok || lhs[id] {
					return true
				}
				if o := info.Uses[id]; o != nil {
					reads[o] = append(reads[o], id.Pos())
				}
				return true
			})
			// named results are read by every bare return and by the caller: treat them as read at function end
			namedResult := map[types.Object]bool{}
			var markResults func(ft *ast.FuncType)
			markResults = func(ft *ast.FuncType) {
				if ft == nil || ft.Results == nil {
					return
				}
				for _, f := range ft.Results.List {
					for _, nm := range f.Names {
						if o := info.Defs[nm]; o != nil {
							namedResult[o] = true
						}
					}
				}
			}
			markResults(fd.Type)
			ast.Inspect(fd.Body, func(n ast.Node) bool {
				if fl, ok := n.(*ast.FuncLit); ok {
					markResults(fl.Type)
				}
				return true
			})
			// variables captured by a closure may be read when the closure runs: any read inside a FuncLit counts for
			// every assignment (position-independent)
			inLit := map[types.Object]bool{}
			ast.Inspect(fd.Body, func(n ast.Node) bool {
				fl, ok := n.(*ast.FuncLit)
				if !ok {
					return true
				}
				ast.Inspect(fl.Body, func(m ast.Node) bool {
					if id, ok := m.(*ast.Ident); ok && !lhs[id] {
						if o := info.Uses[id]; o != nil && o.Pos() < fl.Pos() {
							inLit[o] = true
						}
					}
					return true
				})
				return true
			})
			// loops enclosing a position
			type span struct{ lo, hi token.Pos }
			var loops []span
			ast.Inspect(fd.Body, func(n ast.Node) bool {
				switch x := n.(type) {
				case *ast.ForStmt:
					loops = append(loops, span{x.Pos(), x.End()})
				case *ast.RangeStmt:
					loops = append(loops, span{x.Pos(), x.End()})
				}
				return true
			})
			ast.Inspect(fd.Body, func(n ast.Node) bool {
				as, ok := n.(*ast.AssignStmt)
				if !ok {
					return true
				}
				for _, l := range as.Lhs {
					id, ok := l.(*ast.Ident)
					if !ok || id.Name == "_" {
						continue
					}
					var o types.Object
					if as.Tok == token.DEFINE {
						o = info.Defs[id]
						if o == nil {
							o = info.Uses[id] // redeclaration in a mixed :=
						}
					} else {
						o = info.Uses[id]
					}
					v, ok := o.(*types.Var)
					if !ok || !types.Identical(v.Type(), errT) || v.IsField() || v.Parent() == nil || v.Parent() == v.Pkg().Scope() {
						continue
					}
					if namedResult[o] || inLit[o] {
						continue
					}
					read := false
					for _, rp := range reads[o] {
						if rp > as.End() {
							read = true
						}
						// if-init / switch-init: `if err := f(); err != nil` reads in the same statement
						if rp >= as.Pos() && rp <= as.End() {
							continue
						}
					}
					if !read {
						// loop-carried read
						for _, lp := range loops {
							if as.Pos() >= lp.lo && as.End() <= lp.hi {
								for _, rp := range reads[o] {
									if rp >= lp.lo && rp <= lp.hi && !(rp >= as.Pos() && rp <= as.End()) {
										read = true
									}
								}
							}
						}
					}
					if read {
						continue
					}
					why := ""
					for r := range namedResult {
						if r.Name() == v.Name() && r != o {
							why = " (it shadows the function's named result of the same name)"
						}
					}
					out = append(out, lostErr{as.Pos(), v.Name(), fname, why})
				}
				return true
			})
		}
	}
	return out
}

// ---- embedded positive control ----

const lostErrControlSrc = `package ctl

type E struct{}

func (E) Error() string { return "e" }

func f() error { return E{} }

// shadow: the inner err shadows the named result and is assigned, the outer stays nil
func shadow() (err error) {
	if err := f(); err != nil {
		err = E{}
	}
	return
}

// fallthrough: err is assigned and the function returns nil
func fall() error {
	var err error
	if f() != nil {
		err = E{}
	}
	return nil
}

// fine: read afterwards
func fine() error {
	err := f()
	if err != nil {
		return err
	}
	return nil
}
`

var (
	controlFset = token.NewFileSet()
	controlFile *ast.File
	controlInfo *types.Info
)

func init() {
	f, err := parser.ParseFile(controlFset, "ctl.go", lostErrControlSrc, 0)
	if err != nil {
		panic(err)
	}
	controlFile = f
	controlInfo = &types.Info{Defs: map[*ast.Ident]types.Object{}, Uses: map[*ast.Ident]types.Object{}}
	conf := types.Config{Importer: importer.Default(), Error: func(error) {}}
	_, _ = conf.Check("ctl", controlFset, []*ast.File{f}, controlInfo)
}

// deadStore: on every path from the store, the cell is stored again or the function ends before the cell is read.
// Reads: loads of the cell, closures that capture it (created later or deferred earlier), calls that receive its
// address, and RunDefers when some deferred closure of the function captures the cell.
func deadStore(st *ssa.Store, al *ssa.Alloc) bool {
	fn := st.Parent()
	capturedByDefer := false
	if al.Referrers() != nil {
		for _, r := range *al.Referrers() {
			if mc, ok := r.(*ssa.MakeClosure); ok {
				_ = mc
				capturedByDefer = true // any closure over the cell may run later (deferred or stored)
			}
			if c, ok := r.(ssa.CallInstruction); ok {
				_ = c
				capturedByDefer = true // address handed to a call
			}
		}
	}
	if capturedByDefer {
		return false
	}
	reads := func(in ssa.Instruction) bool {
		if u, ok := in.(*ssa.UnOp); ok && u.Op == token.MUL && u.X == ssa.Value(al) {
			return true
		}
		return false
	}
	scan := func(instrs []ssa.Instruction) (read, stop bool) {
		for _, in := range instrs {
			if reads(in) {
				return true, true
			}
			if s2, ok := in.(*ssa.Store); ok && s2.Addr == ssa.Value(al) {
				return false, true
			}
			if _, ok := in.(*ssa.Return); ok {
				return false, true
			}
		}
		return false, false
	}
	blk := st.Block()
	idx := 0
	for i, in := range blk.Instrs {
		if in == ssa.Instruction(st) {
			idx = i + 1
		}
	}
	if r, stop := scan(blk.Instrs[idx:]); stop {
		return !r
	}
	seen := map[*ssa.BasicBlock]bool{}
	work := append([]*ssa.BasicBlock{}, blk.Succs...)
	for len(work) > 0 {
		b := work[0]
		work = work[1:]
		if seen[b] {
			continue
		}
		seen[b] = true
		r, stop := scan(b.Instrs)
		if r {
			return false
		}
		if !stop {
			work = append(work, b.Succs...)
		}
	}
	_ = fn
	return true
}

// checkStaleErrReturns: `return nil, err` on a path that has just established err == nil hands the caller a nil result
// with a nil error — the caller proceeds with a nil pool / config / connection. Every return that yields only zero
// values next to a *variable* error is checked: on no path may that variable be known to be nil.
func checkStaleErrReturns(c *engine.Ctx, rule string, pkgs ...string) {
	c.Rule(rule, "in "+strings.Join(pkgs, ", ")+": a failure exit (`return <zero values>, err`) never returns an err that this path has found to be nil")
	p := c.P
	errT := types.Universe.Lookup("error").Type()
	inScope := func(path string) bool {
		rel := strings.TrimPrefix(path, engine.ModPath+"/")
		for _, q := range pkgs {
			if q == "*" || rel == q || strings.HasPrefix(rel, q+"/") {
				return true
			}
		}
		return false
	}
	isZero := func(v ssa.Value) bool {
		k, ok := v.(*ssa.Const)
		if !ok {
			return false
		}
		if k.Value == nil {
			return true
		}
		s := k.Value.ExactString()
		return s == "0" || s == `""` || s == "false"
	}
	// positions of return statements that spell their operands out
	explicit := map[token.Pos]bool{}
	for _, pk := range p.Pkgs {
		if pk.Types == nil || !engine.IsRepoPkg(pk.PkgPath) || !inScope(pk.PkgPath) {
			continue
		}
		for _, file := range pk.Syntax {
			ast.Inspect(file, func(nd ast.Node) bool {
				if rs, ok := nd.(*ast.ReturnStmt); ok && len(rs.Results) > 0 {
					explicit[rs.Return] = true
				}
				return true
			})
		}
	}
	n := 0
	for _, f := range p.RepoFuncs() {
		if f.Pkg == nil || !inScope(f.Pkg.Pkg.Path()) {
			continue
		}
		res := f.Signature.Results()
		if res.Len() < 2 || !types.Identical(res.At(res.Len()-1).Type(), errT) {
			continue
		}
		var cand []*ssa.Return
		var track []ssa.Value
		engine.ForEachInstr(f, func(in ssa.Instruction) {
			r, ok := in.(*ssa.Return)
			if !ok || len(r.Results) != res.Len() {
				return
			}
			ev := r.Results[len(r.Results)-1]
			if _, isC := ev.(*ssa.Const); isC {
				return
			}
			// only returns whose other operands are literal zero values in the source (`return nil, err`,
			// `return "", 0, err`): a bare return of named results, or `return v, err`, is not a failure exit by shape
			for _, v := range r.Results[:len(r.Results)-1] {
				if !isZero(v) {
					return
				}
			}
			if !explicit[r.Pos()] {
				return // a bare `return` of named results
			}
			cand = append(cand, r)
			track = append(track, r.Results...)
		})
		if len(cand) == 0 {
			continue
		}
		n++
		f := f
		isCand := func(in ssa.Instruction) bool {
			for _, r := range cand {
				if in == ssa.Instruction(r) {
					return true
				}
			}
			return false
		}
		q := &engine.PathQuery{Fn: f, Track: track, Sink: isCand, NoInline: true,
			// only nil tests of error values matter here
			Relevant: func(cond ssa.Value) bool {
				bo, ok := cond.(*ssa.BinOp)
				if !ok || (bo.Op != token.EQL && bo.Op != token.NEQ) {
					return false
				}
				return types.Identical(bo.X.Type(), errT) || types.Identical(bo.Y.Type(), errT)
			}}
		t0 := time.Now()
		states, err := q.Run()
		if d := time.Since(t0); d > 300*time.Millisecond && os.Getenv("FRPSA_TIMING") == "1" {
			fmt.Fprintf(os.Stderr, "R16 %s %v states=%d\n", p.FuncName(f), d, len(states))
		}
		key := p.FuncName(f) + ">failure-exits"
		if err != nil {
			c.Undecide(key, f.Pos(), "%v", err)
			continue
		}
		bad := false
		for _, st := range states {
			r := st.Sink.(*ssa.Return)
			ev := st.Resolve(r.Results[len(r.Results)-1])
			if engine.IsNilConst(ev) {
				continue
			}
			if isNil, known := st.IsNil(func(x ssa.Value) bool { return x == ev }); known && isNil {
				c.Violate(key, r.Pos(), []string{"path: " + st.Witness(), "facts: " + strings.Join(st.LitStrings(), " ; ")},
					"this exit returns only zero values together with an error variable that the path has found to be nil: the caller gets (nil, nil) and goes on with a nil result")
				bad = true
				break
			}
		}
		if !bad {
			c.Hold(key, f.Pos(), len(states), nil, "no failure exit returns an error variable known to be nil (%d path states; an unreachable exit is vacuously fine)", len(states))
		}
	}
	c.Floor(n, 3)
}
