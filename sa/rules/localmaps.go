package rules

import (
	"fmt"
	"go/token"
	"go/types"

	"golang.org/x/tools/go/ssa"

	"frpsa/engine"
)

// checkLocalGuardedMaps (C16.R30, shared with C03.R14): a map that lives in a local variable of a function and is shared
// with the goroutines that function starts (the per-user socket table of udp.Forwarder) is guarded by a local mutex the
// same way a struct's map is guarded by the struct's mutex: every lookup happens with the mutex held, every insert and
// delete with it held for writing. A concurrent insert and delete is a fatal runtime error, not a panic.
func checkLocalGuardedMaps(c *engine.Ctx, rule string) {
	c.Rule(rule, "a function-local map captured by closures, in a function that also declares a local sync.Mutex/RWMutex captured by the same closures, is read only with that mutex held and written (insert, delete) only with it held in write mode")
	p := c.P
	n, hosts := 0, 0
	for _, f := range p.RepoFuncs() {
		if f.Parent() != nil {
			continue
		}
		var mus, maps []*ssa.Alloc
		engine.ForEachInstr(f, func(in ssa.Instruction) {
			al, ok := in.(*ssa.Alloc)
			if !ok || !al.Heap {
				return
			}
			t := engine.Deref(al.Type())
			if isMutexType(t) {
				mus = append(mus, al)
			}
			if _, isMap := t.Underlying().(*types.Map); isMap {
				maps = append(maps, al)
			}
		})
		if len(mus) != 1 || len(maps) == 0 {
			continue
		}
		mu := mus[0]
		hosts++
		// resolve a value to the local cell it denotes (through closure captures)
		cellOf := func(v ssa.Value) *ssa.Alloc {
			for i := 0; i < 8; i++ {
				switch x := v.(type) {
				case *ssa.Alloc:
					return x
				case *ssa.FreeVar:
					b := engine.ClosureBinding(x)
					if b == nil {
						return nil
					}
					v = b
				default:
					return nil
				}
			}
			return nil
		}
		mapCellOf := func(v ssa.Value) *ssa.Alloc {
			u, ok := v.(*ssa.UnOp)
			if !ok || u.Op != token.MUL {
				return nil
			}
			return cellOf(u.X)
		}
		family := append([]*ssa.Function{f}, lexicalAnon(f)...)
		for _, g := range family {
			g := g
			if len(g.Blocks) == 0 {
				continue
			}
			// must-held mode of mu per block (0 none, 1 read, 2 write)
			apply := func(cur int, in ssa.Instruction) int {
				call, ok := in.(*ssa.Call)
				if !ok {
					return cur
				}
				o := engine.CalleeObj(call)
				if o == nil || o.Pkg() == nil || o.Pkg().Path() != "sync" {
					return cur
				}
				args := engine.CallArgs(call)
				if len(args) == 0 || cellOf(args[0]) != mu {
					return cur
				}
				switch o.Name() {
				case "Lock":
					return 2
				case "RLock":
					if cur < 1 {
						return 1
					}
				case "Unlock", "RUnlock":
					return 0
				}
				return cur
			}
			in := map[*ssa.BasicBlock]int{g.Blocks[0]: 0}
			seen := map[*ssa.BasicBlock]bool{}
			work := []*ssa.BasicBlock{g.Blocks[0]}
			for len(work) > 0 {
				b := work[0]
				work = work[1:]
				cur := in[b]
				for _, x := range b.Instrs {
					cur = apply(cur, x)
				}
				for _, s := range b.Succs {
					old, ok := in[s]
					nv := cur
					if ok && old < nv {
						nv = old
					}
					if !ok || nv != old || !seen[s] {
						in[s] = nv
						if !seen[s] || nv != old {
							seen[s] = true
							work = append(work, s)
						}
					}
				}
			}
			for _, b := range g.Blocks {
				cur, ok := in[b]
				if !ok {
					continue
				}
				for _, x := range b.Instrs {
					var m ssa.Value
					write := false
					what := ""
					switch y := x.(type) {
					case *ssa.Lookup:
						m, what = y.X, "read"
					case *ssa.Range:
						m, what = y.X, "range"
					case *ssa.MapUpdate:
						m, write, what = y.Map, true, "insert"
					case *ssa.Call:
						if bi, ok := y.Call.Value.(*ssa.Builtin); ok && bi.Name() == "delete" {
							m, write, what = y.Call.Args[0], true, "delete"
						}
					}
					if m != nil {
						if cell := mapCellOf(m); cell != nil {
							isShared := false
							for _, mc := range maps {
								if mc == cell {
									isShared = true
								}
							}
							if isShared {
								n++
								okHeld := cur == 2 || (!write && cur == 1)
								key := fmt.Sprintf("%s>%s@%s#%s", p.FuncName(f), cell.Comment, p.FuncName(g), what)
								if okHeld {
									c.Hold(key, x.Pos(), 1, nil, "%s of the local shared map %s under the local mutex", what, cell.Comment)
								} else {
									mode := "not held"
									if cur == 1 {
										mode = "held for reading only"
									}
									c.Violate(key, x.Pos(), nil, "%s of the local map %s, which the goroutines started here share, with the local mutex %s: a concurrent insert / delete is a fatal runtime error", what, cell.Comment, mode)
								}
							}
						}
					}
					cur = apply(cur, x)
				}
			}
		}
	}
	c.Check(hosts >= 1, "local-maps:seen", token.NoPos, hosts, nil, "positive control: %d function(s) keep a map and a mutex in local variables shared with their goroutines, %d accesses examined", hosts, n)
}
