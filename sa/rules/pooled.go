package rules

import (
	"go/token"
	"go/types"

	"golang.org/x/tools/go/ssa"

	"frpsa/engine"
)

// checkPooledEscape (C18.R17, shared with C16.R25): storage taken from a pool (sync.Pool.Get, golib pool.GetBuf) and
// given back by the same function (Put / PutBuf, deferred or not) must not leave the function: what is returned must be a
// copy. bytes.Buffer.Bytes() and a slice expression alias the pooled storage — the next user of the pool overwrites
// the document the caller is still holding.
func checkPooledEscape(c *engine.Ctx, rule string) {
	c.Rule(rule, "a function that takes storage from a pool and puts it back does not return that storage (Buffer.Bytes(), a slice of the pooled buffer) to its caller; returning a copy (string conversion, append to a fresh slice, bytes.Clone) is fine")
	p := c.P
	isGet := func(o *types.Func) bool {
		if o == nil || o.Pkg() == nil {
			return false
		}
		if o.Pkg().Path() == "sync" && o.Name() == "Get" {
			return true
		}
		return o.Pkg().Path() == "github.com/fatedier/golib/pool" && o.Name() == "GetBuf"
	}
	isPut := func(o *types.Func) bool {
		if o == nil || o.Pkg() == nil {
			return false
		}
		if o.Pkg().Path() == "sync" && o.Name() == "Put" {
			return true
		}
		return o.Pkg().Path() == "github.com/fatedier/golib/pool" && o.Name() == "PutBuf"
	}
	n := 0
	for _, f := range p.RepoFuncs() {
		f := f
		pooled := map[ssa.Value]bool{}
		hasPut := false
		engine.ForEachInstr(f, func(in ssa.Instruction) {
			call, ok := in.(ssa.CallInstruction)
			if !ok {
				return
			}
			o := engine.CalleeObj(call)
			if isGet(o) {
				if v := call.Value(); v != nil {
					pooled[v] = true
				}
			}
			if isPut(o) {
				hasPut = true
			}
		})
		if len(pooled) == 0 {
			continue
		}
		n++
		if !hasPut {
			c.Hold(p.FuncName(f)+">pooled-storage", f.Pos(), 1, nil, "pooled storage is not put back by this function (ownership moves with the value)")
			continue
		}
		// backwards from each returned value through operations that alias their operand
		var aliases func(v ssa.Value, depth int, seen map[ssa.Value]bool) bool
		aliases = func(v ssa.Value, depth int, seen map[ssa.Value]bool) bool {
			if v == nil || depth > 12 || seen[v] {
				return false
			}
			seen[v] = true
			if pooled[v] {
				return true
			}
			switch x := v.(type) {
			case *ssa.Slice:
				return aliases(x.X, depth+1, seen)
			case *ssa.TypeAssert:
				return aliases(x.X, depth+1, seen)
			case *ssa.ChangeType:
				return aliases(x.X, depth+1, seen)
			case *ssa.MakeInterface:
				return aliases(x.X, depth+1, seen)
			case *ssa.ChangeInterface:
				return aliases(x.X, depth+1, seen)
			case *ssa.Extract:
				return aliases(x.Tuple, depth+1, seen)
			case *ssa.Phi:
				for _, e := range x.Edges {
					if aliases(e, depth+1, seen) {
						return true
					}
				}
			case *ssa.UnOp:
				if x.Op == token.MUL {
					if al, ok := x.X.(*ssa.Alloc); ok {
						if refs := al.Referrers(); refs != nil {
							for _, r := range *refs {
								if st, ok := r.(*ssa.Store); ok && st.Addr == ssa.Value(al) && aliases(st.Val, depth+1, seen) {
									return true
								}
							}
						}
					}
				}
			case *ssa.Call:
				// methods that hand out the receiver's storage
				if o := engine.CalleeObj(x); o != nil {
					switch o.Name() {
					case "Bytes", "Next", "AvailableBuffer":
						if a := engine.CallArgs(x); len(a) > 0 {
							return aliases(a[0], depth+1, seen)
						}
					}
				}
			}
			return false
		}
		bad := token.NoPos
		engine.ForEachInstr(f, func(in ssa.Instruction) {
			r, ok := in.(*ssa.Return)
			if !ok {
				return
			}
			for i := range r.Results {
				if aliases(spilledResult(r, i), 0, map[ssa.Value]bool{}) {
					bad = r.Pos()
				}
			}
		})
		c.Check(bad == token.NoPos, p.FuncName(f)+">pooled-storage", f.Pos(), 2, nil,
			"what the function returns does not alias the storage it puts back into the pool (the return at %s hands out pooled memory: the next user of the pool overwrites it)", p.Pos(bad))
	}
	c.Floor(n, 3)
}
