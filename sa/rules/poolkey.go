package rules

import (
	"strings"

	"golang.org/x/tools/go/ssa"

	"frpsa/engine"
)

// checkPoolKey (shared by C02.R4, C06.R10, C07.R1b): the synthetic URL host that keys the HTTP transport's
// keep-alive pool must cover the whole route identity and the chosen endpoint, otherwise idle backend connections
// are shared across routes (a request checked against one route is written to another route's backend).
func checkPoolKey(c *engine.Ctx, rule string) {
	c.Rule(rule, "the URL host stored by the vhost reverse proxy's Rewrite hook (the HTTP transport's connection-pool key) depends on the route's domain, location, routeByHTTPUser and on the chosen endpoint")
	ctor := fn(c, "pkg/util/vhost.NewHTTPReverseProxy")
	dom := field(c, "pkg/util/vhost", "RouteConfig", "Domain")
	loc := field(c, "pkg/util/vhost", "RouteConfig", "Location")
	usr := field(c, "pkg/util/vhost", "RouteConfig", "RouteByHTTPUser")
	ep := field(c, "pkg/util/vhost", "RouteConfig", "ChooseEndpointFn")
	if ctor == nil || dom == nil || loc == nil || usr == nil || ep == nil {
		return
	}
	n := 0
	for _, f := range allAnon(ctor) {
		engine.ForEachInstr(f, func(in ssa.Instruction) {
			st, ok := in.(*ssa.Store)
			if !ok {
				return
			}
			root, path := engine.FieldPath(st.Addr)
			_ = root
			ps := engine.PathString(path)
			if !strings.HasSuffix(ps, "URL.Host") {
				return
			}
			src := engine.Provenance(st.Val, engine.ProvOpts{IntoCallee: true, Prog: c.P}) // the key may be built by a helper
			if !src.HasField(dom) && !src.HasField(loc) && !src.HasField(usr) {
				// the no-route branch: the key must not be chosen by the client. A Host header spelled like a route's
				// key would otherwise pick up that route's idle backend connection — without a route there is no
				// credential check and no dial that could fail, so the request reaches the (protected) backend.
				clientChosen := len(src.Fields) > 0 || len(src.Params) > 0 || len(src.Calls) > 0
				c.Check(!clientChosen, "pkg/util/vhost.NewHTTPReverseProxy>no-route-key", in.Pos(), len(src.Values), []string{"key sources: " + src.Summary()},
					"without a route the connection-pool key is a constant, not a value taken from the request")
				return
			}
			n++
			var missing []string
			for _, fv := range []*struct {
				name string
				ok   bool
			}{{"Domain", src.HasField(dom)}, {"Location", src.HasField(loc)}, {"RouteByHTTPUser", src.HasField(usr)}, {"endpoint (ChooseEndpointFn result)", src.HasField(ep)}} {
				if !fv.ok {
					missing = append(missing, fv.name)
				}
			}
			c.Check(len(missing) == 0, "pkg/util/vhost.NewHTTPReverseProxy>pool-key", in.Pos(), len(src.Values), []string{"key sources: " + src.Summary()},
				"connection-pool key covers domain, location, routeByHTTPUser and endpoint (missing: %s)", strings.Join(missing, ", "))
		})
	}
	c.Floor(n, 1)
}
