package rules

import (
	"fmt"
	"go/types"

	"golang.org/x/tools/go/ssa"

	"frpsa/engine"
)

// checkInitBeforePublish (C16.R31, shared with C07.R13): an object becomes visible to other goroutines the moment it is
// put into a shared table (a map field of a struct, directly or through a registry method that stores its argument) or
// sent on a channel. Whatever the creating function writes into it afterwards races with the readers: a listener
// entered into the route table before its credentials are set is, for a moment, an unprotected route.
func checkInitBeforePublish(c *engine.Ctx, rule string) {
	c.Rule(rule, "a struct allocated in a function is not written (field stores) by that function after it was stored into a map field, handed to a function that stores that argument into a map field, or sent on a channel")
	p := c.P
	// summary: which parameters does a function store into a struct's map field?
	storesParam := map[*ssa.Function]map[int]bool{}
	for _, f := range p.RepoFuncs() {
		f := f
		engine.ForEachInstr(f, func(in ssa.Instruction) {
			mu, ok := in.(*ssa.MapUpdate)
			if !ok {
				return
			}
			// the map is (an element of) a struct field
			root := mu.Map
			for i := 0; i < 4; i++ {
				if lk, ok := root.(*ssa.Lookup); ok {
					root = lk.X
					continue
				}
				if ex, ok := root.(*ssa.Extract); ok {
					root = ex.Tuple
					continue
				}
				break
			}
			if fv, _ := engine.LoadedField(root); fv == nil {
				if _, isPhi := root.(*ssa.Phi); !isPhi {
					if _, isMM := root.(*ssa.MakeMap); !isMM {
						return
					}
				}
			}
			src := engine.Provenance(mu.Value, engine.ProvOpts{NoArgs: true})
			// a parameter wrapped into a record allocated here (`&Router{payload: p}`) that is stored in the table
			for v := range src.Values {
				al, ok := v.(*ssa.Alloc)
				if !ok || al.Referrers() == nil {
					continue
				}
				for _, r := range *al.Referrers() {
					fa, ok := r.(*ssa.FieldAddr)
					if !ok || fa.Referrers() == nil {
						continue
					}
					for _, u := range *fa.Referrers() {
						if st, ok := u.(*ssa.Store); ok && st.Addr == ssa.Value(fa) {
							for pr := range engine.Provenance(st.Val, engine.ProvOpts{NoArgs: true}).Params {
								src.Params[pr] = true
							}
						}
					}
				}
			}
			for pr := range src.Params {
				for i, q := range f.Params {
					if q == pr {
						if storesParam[f] == nil {
							storesParam[f] = map[int]bool{}
						}
						storesParam[f][i] = true
					}
				}
			}
		})
	}
	// a registry method that wraps its argument into a record it allocates and files that record in a table (Routers.Add:
	// &Router{payload: p} appended to the slice stored in the index): the argument is published as well
	for _, f := range p.RepoFuncs() {
		f := f
		updatesTable := false
		engine.ForEachInstr(f, func(in ssa.Instruction) {
			if mu, ok := in.(*ssa.MapUpdate); ok {
				root := mu.Map
				for i := 0; i < 4; i++ {
					if lk, ok := root.(*ssa.Lookup); ok {
						root = lk.X
					} else if ex, ok := root.(*ssa.Extract); ok {
						root = ex.Tuple
					} else if ph, ok := root.(*ssa.Phi); ok && len(ph.Edges) > 0 {
						root = ph.Edges[0]
					}
				}
				if fv, _ := engine.LoadedField(root); fv != nil {
					updatesTable = true
				}
			}
		})
		if !updatesTable {
			continue
		}
		engine.ForEachInstr(f, func(in ssa.Instruction) {
			st, ok := in.(*ssa.Store)
			if !ok {
				return
			}
			fa, ok := st.Addr.(*ssa.FieldAddr)
			if !ok {
				return
			}
			al, ok := fa.X.(*ssa.Alloc)
			if !ok || !al.Heap {
				return
			}
			v := engine.Unwrap(st.Val)
			if mi, ok := v.(*ssa.MakeInterface); ok {
				v = engine.Unwrap(mi.X)
			}
			if pr, ok := v.(*ssa.Parameter); ok {
				for i, q := range f.Params {
					if q == pr {
						if storesParam[f] == nil {
							storesParam[f] = map[int]bool{}
						}
						storesParam[f][i] = true
					}
				}
			}
		})
	}
	n := 0
	for _, f := range p.RepoFuncs() {
		f := f
		var fresh []*ssa.Alloc
		engine.ForEachInstr(f, func(in ssa.Instruction) {
			if al, ok := in.(*ssa.Alloc); ok && al.Heap {
				if _, isStruct := engine.Deref(al.Type()).Underlying().(*types.Struct); isStruct {
					fresh = append(fresh, al)
				}
			}
		})
		for _, al := range fresh {
			al := al
			isObj := func(v ssa.Value) bool {
				v = engine.Unwrap(v)
				if mi, ok := v.(*ssa.MakeInterface); ok {
					v = engine.Unwrap(mi.X)
				}
				return v == ssa.Value(al)
			}
			var pubs []ssa.Instruction
			engine.ForEachInstr(f, func(in ssa.Instruction) {
				switch x := in.(type) {
				case *ssa.MapUpdate:
					if isObj(x.Value) {
						if fv, _ := engine.LoadedField(x.Map); fv != nil {
							pubs = append(pubs, in)
						}
					}
				case *ssa.Send:
					if isObj(x.X) {
						pubs = append(pubs, in)
					}
				case *ssa.Call:
					cf := engine.CalleeFn(x)
					if cf == nil || storesParam[cf] == nil {
						return
					}
					for i, a := range x.Call.Args {
						if storesParam[cf][i] && isObj(a) {
							pubs = append(pubs, in)
						}
					}
				}
			})
			if len(pubs) == 0 {
				continue
			}
			n++
			var late ssa.Instruction
			engine.ForEachInstr(f, func(in ssa.Instruction) {
				st, ok := in.(*ssa.Store)
				if !ok || late != nil {
					return
				}
				fa, ok := st.Addr.(*ssa.FieldAddr)
				if !ok || fa.X != ssa.Value(al) {
					return
				}
				for _, pb := range pubs {
					if engine.InstrReaches(pb, in) {
						late = in
					}
				}
			})
			key := fmt.Sprintf("%s>%s", p.FuncName(f), typeShort(engine.Deref(al.Type())))
			if late != nil {
				fname := engine.Deref(al.Type()).Underlying().(*types.Struct).Field(late.(*ssa.Store).Addr.(*ssa.FieldAddr).Field).Name()
				c.Violate(key, late.Pos(), []string{"published at " + p.Pos(pubs[0].Pos())},
					"field %s of the %s created here is written after the object was put into a shared table: readers that find it there see it without that field (for a listener: without its credentials)", fname, typeShort(engine.Deref(al.Type())))
			} else {
				c.Hold(key, pubs[0].Pos(), len(pubs), nil, "the object is complete when it is published")
			}
		}
	}
	c.Floor(n, 3)
}
