// Package rules holds the repository-specific rules, one file per property.
package rules

import (
	"encoding/json"
	"fmt"
	"go/token"
	"go/types"
	"os"
	"path/filepath"
	"strings"
	"sync"

	"golang.org/x/tools/go/ssa"

	"frpsa/engine"
)

// Property is the registration of one property's rule set.
type Property struct {
	Title       string
	Run         func(c *engine.Ctx)
	NeedDeps    bool // thorough tier loads dependency bodies
	Explanation string
	Assumptions []string
}

// Registry maps property id to its rules.
var Registry = map[string]*Property{}

var commonAssumptions = []string{
	"go/types, go/ssa and go/packages (x/tools v0.29.0) model the program faithfully; the default build configuration (linux/amd64, no tags) is a superset of the shipped frps/frpc builds",
	"every path of the SSA control-flow graph is considered feasible unless two recorded branch literals contradict; panics and os.Exit only remove paths",
	"reflection, unsafe and cgo do not mutate the analysed state (none is used on the analysed paths)",
	"dependency behaviour (golib codec/io/crypto, yamux, quic, net/http, x/time/rate) is trusted by version pin in quick tier",
}

// ---- small helpers shared by the rules ----

// fn resolves a symbolic function or records a missing anchor.
func fn(c *engine.Ctx, sym string) *ssa.Function {
	f := c.P.Fn(sym)
	if f == nil || f.Blocks == nil {
		c.Missing(sym, "function %s not found (renamed or moved: the one refactoring the checks cannot follow)", sym)
		return nil
	}
	return f
}

func method(c *engine.Ctx, pkg, typ, name string) *types.Func {
	m := c.P.MethodObj(pkg, typ, name)
	if m == nil {
		c.Missing(pkg+"."+typ+"."+name, "method %s.%s.%s not found", pkg, typ, name)
	}
	return m
}

func funcObj(c *engine.Ctx, pkg, name string) *types.Func {
	m := c.P.FuncObj(pkg, name)
	if m == nil {
		c.Missing(pkg+"."+name, "function %s.%s not found", pkg, name)
	}
	return m
}

// field resolves a struct field by name. When the name no longer exists (an unexported field was renamed), the field
// is re-identified by its type: golden/field_types.json records the type each anchored field had on the confirmed
// tree, and a struct that still has exactly one field of that type yields it. Only if that fails is the anchor missing.
func field(c *engine.Ctx, pkg, typ, name string) *types.Var {
	key := pkg + "." + typ + "." + name
	f := c.P.Field(pkg, typ, name)
	if f != nil {
		recordFieldType(key, f)
		return f
	}
	if want, ok := fieldTypes()[key]; ok {
		if n := c.P.Named(pkg, typ); n != nil {
			if st, ok := n.Underlying().(*types.Struct); ok {
				var hit []*types.Var
				for i := 0; i < st.NumFields(); i++ {
					if typeKey(st.Field(i).Type()) == want {
						hit = append(hit, st.Field(i))
					}
				}
				if len(hit) == 1 {
					return hit[0]
				}
			}
		}
	}
	c.Missing(key, "field %s.%s.%s not found (and not re-identifiable by its type)", pkg, typ, name)
	return nil
}

func typeKey(t types.Type) string {
	return types.TypeString(t, func(p *types.Package) string { return p.Path() })
}

var (
	fieldTypesOnce sync.Once
	fieldTypesTab  map[string]string
	fieldTypesSeen = map[string]string{}
	fieldTypesMu   sync.Mutex
)

func fieldTypes() map[string]string {
	fieldTypesOnce.Do(func() {
		fieldTypesTab = map[string]string{}
		if b, err := os.ReadFile(filepath.Join(verifDirOf(), "golden", "field_types.json")); err == nil {
			_ = json.Unmarshal(b, &fieldTypesTab)
		}
	})
	return fieldTypesTab
}

func recordFieldType(key string, f *types.Var) {
	if os.Getenv("FRPSA_WRITE_GOLDEN") != "1" {
		return
	}
	fieldTypesMu.Lock()
	defer fieldTypesMu.Unlock()
	fieldTypesSeen[key] = typeKey(f.Type())
	// merge with what is on disk (each property run contributes its anchors)
	path := filepath.Join(verifDirOf(), "golden", "field_types.json")
	cur := map[string]string{}
	if b, err := os.ReadFile(path); err == nil {
		_ = json.Unmarshal(b, &cur)
	}
	for k, v := range fieldTypesSeen {
		cur[k] = v
	}
	b, _ := json.MarshalIndent(cur, "", " ")
	_ = os.WriteFile(path, b, 0o644)
}

// callMatcher matches call results of the given callees.
func resultOf(objs ...*types.Func) func(ssa.Value) bool {
	return engine.ResultOf(func(call *ssa.Call) bool {
		o := engine.CalleeObj(call)
		for _, x := range objs {
			if engine.SameFunc(o, x) {
				return true
			}
		}
		return false
	})
}

// loadOfField matches (loads of) the given struct field.
func loadOfField(f *types.Var) func(ssa.Value) bool {
	return func(v ssa.Value) bool {
		fv, _ := engine.LoadedField(engine.Unwrap(v))
		return fv != nil && fv == f
	}
}

func isParam(name string) func(ssa.Value) bool {
	return func(v ssa.Value) bool {
		switch x := v.(type) {
		case *ssa.Parameter:
			return x.Name() == name
		case *ssa.FreeVar:
			return x.Name() == name
		}
		return false
	}
}

func posOf(in ssa.Instruction) token.Pos {
	if in == nil {
		return token.NoPos
	}
	if p := in.Pos(); p.IsValid() {
		return p
	}
	// fall back to the nearest positioned instruction of the block
	if b := in.Block(); b != nil {
		for _, x := range b.Instrs {
			if x.Pos().IsValid() {
				return x.Pos()
			}
		}
		if b.Parent() != nil {
			return b.Parent().Pos()
		}
	}
	return token.NoPos
}

// firstCall returns the first call in f to one of objs (nil if none).
func firstCall(f *ssa.Function, objs ...*types.Func) ssa.CallInstruction {
	cs := engine.CallsTo(f, objs...)
	if len(cs) == 0 {
		return nil
	}
	return cs[0]
}

// clientLoginLoop finds the client Service method that builds controls (the one whose closures call
// client.NewControl: loopLoginUntilSuccess on the confirmed tree) by what it does, so a rename is followed.
func clientLoginLoop(c *engine.Ctx) *ssa.Function {
	nc := funcObj(c, "client", "NewControl")
	svc := c.P.Named("client", "Service")
	if nc == nil || svc == nil {
		return nil
	}
	var hit []*ssa.Function
	for _, f := range c.P.RepoFuncs() {
		if f.Parent() != nil || f.Signature.Recv() == nil || engine.NamedOf(f.Signature.Recv().Type()) != svc {
			continue
		}
		if len(engine.CallsToDeep(f, nc)) > 0 {
			hit = append(hit, f)
		}
	}
	if len(hit) != 1 {
		c.Missing("client.Service.<login loop>", "expected exactly one client.Service method creating controls with NewControl, found %d", len(hit))
		return nil
	}
	return hit[0]
}

// clientSupervisor finds the client Service method that re-runs the login loop from inside a closure (the
// BackoffUntil body of keepControllerWorking on the confirmed tree).
func clientSupervisor(c *engine.Ctx, loginLoop *ssa.Function) *ssa.Function {
	svc := c.P.Named("client", "Service")
	lo, _ := loginLoop.Object().(*types.Func)
	if svc == nil || lo == nil {
		return nil
	}
	var hit []*ssa.Function
	for _, f := range c.P.RepoFuncs() {
		if f.Parent() != nil || f == loginLoop || f.Signature.Recv() == nil || engine.NamedOf(f.Signature.Recv().Type()) != svc {
			continue
		}
		in := false
		for _, a := range lexicalAnon(f) {
			if len(engine.CallsTo(a, lo)) > 0 {
				in = true
			}
		}
		if in {
			hit = append(hit, f)
		}
	}
	if len(hit) != 1 {
		c.Missing("client.Service.<supervisor>", "expected exactly one client.Service method that re-runs the login loop from a retry closure, found %d", len(hit))
		return nil
	}
	return hit[0]
}

// srcSet is the provenance of a value seen through one level of helper extraction: the value's own sources plus, for
// every parameter of the hosting helper among them, the sources of the matching argument at each call of the helper
// from the given callers.
type srcSet []*engine.Sources

func (ss srcSet) HasField(f *types.Var) bool {
	for _, s := range ss {
		if s.HasField(f) {
			return true
		}
	}
	return false
}

func (ss srcSet) HasCallNamed(pkg string, names ...string) bool {
	for _, s := range ss {
		for k := range s.Calls {
			if k.Pkg() != nil && k.Pkg().Path() == pkg {
				for _, n := range names {
					if k.Name() == n {
						return true
					}
				}
			}
		}
	}
	return false
}

func provThroughCallers(v ssa.Value, host *ssa.Function, callers ...*ssa.Function) srcSet {
	own := engine.Provenance(v, engine.ProvOpts{})
	out := srcSet{own}
	hobj, _ := host.Object().(*types.Func)
	if hobj == nil {
		return out
	}
	for _, cf := range callers {
		if cf == host {
			continue
		}
		for _, call := range engine.CallsToDeep(cf, hobj) {
			for i, pr := range host.Params {
				if own.Params[pr] && i < len(call.Common().Args) {
					out = append(out, engine.Provenance(call.Common().Args[i], engine.ProvOpts{}))
				}
			}
		}
	}
	return out
}

// withHelpers returns f followed by the same-package functions f calls statically (one level, no closures).
func withHelpers(f *ssa.Function) []*ssa.Function {
	out := []*ssa.Function{f}
	seen := map[*ssa.Function]bool{f: true}
	engine.ForEachInstr(f, func(in ssa.Instruction) {
		if call, ok := in.(ssa.CallInstruction); ok {
			if cf := engine.CalleeFn(call); cf != nil && cf.Blocks != nil && cf.Pkg == f.Pkg && cf.Parent() == nil && !seen[cf] {
				seen[cf] = true
				out = append(out, cf)
			}
		}
	})
	return out
}

// propPackages: the packages whose code implements each property (the scope of the generic error-discipline rules).
var propPackages = map[string][]string{
	"C01": {"client/proxy", "server/proxy", "pkg/util/limit", "pkg/util/net", "pkg/util/vhost", "client/visitor"},
	"C02": {"pkg/util/vhost", "pkg/plugin/client", "server/proxy"},
	"C03": {"pkg/proto/udp", "server/proxy", "client/proxy", "client/visitor", "pkg/config/legacy"},
	"C04": {"server", "pkg/auth", "pkg/config/v1/validation", "pkg/ssh"},
	"C05": {"pkg/transport", "pkg/util/net", "client", "server", "pkg/config/legacy", "pkg/config/v1"},
	"C06": {"pkg/util/vhost", "pkg/util/tcpmux", "pkg/util/http", "server/proxy", "server/group"},
	"C07": {"pkg/util/vhost", "pkg/util/tcpmux", "pkg/util/net", "pkg/plugin/client", "server/group", "server/proxy"},
	"C08": {"server/visitor", "pkg/nathole", "server", "pkg/util/net", "client/visitor", "client/proxy"},
	"C09": {"server/ports", "server/proxy", "server/group", "pkg/config/types", "pkg/config/legacy"},
	"C10": {"server", "server/proxy", "server/group", "server/visitor", "server/ports"},
	"C11": {"server", "server/proxy", "server/group", "pkg/util/vhost"},
	"C12": {"server", "server/proxy"},
	"C13": {"server/group", "server/proxy", "pkg/util/vhost"},
	"C14": {"client", "server", "pkg/util/wait"},
	"C15": {"pkg/plugin/server", "server"},
	"C17": {"pkg/msg", "server", "pkg/util/net"},
	"C18": {"pkg/config"},
	"C19": {"client", "client/proxy", "client/visitor", "client/health"},
	"C20": {"pkg/nathole"},
}

var wrapped bool

// Finalize completes the registry (call once, before any property runs).
func Finalize() { wrapWithErrorDiscipline() }

// wrapWithErrorDiscipline adds the two generic error-handling rules, scoped to the property's packages, to every
// property that has a scope (C16 runs them over the whole module as R14/R15).
func wrapWithErrorDiscipline() {
	if wrapped {
		return
	}
	wrapped = true
	for id, pr := range Registry {
		pkgs, ok := propPackages[id]
		if !ok {
			continue
		}
		run := pr.Run
		pr.Run = func(c *engine.Ctx) {
			run(c)
			checkDroppedErrors(c, "RE1", pkgs...)
			checkLostErrors(c, "RE2", pkgs...)
			checkStaleErrReturns(c, "RE3", pkgs...)
		}
		pr.Explanation += " Generic error discipline in the property's packages: (RE1) the error result of a call to a function of this module is used, the drops confirmed by reading are tabled and may not grow; (RE2) an error value that is assigned, built or loaded is read on some path (no assignment to a shadowing err, no dead store that falls through to a nil return); (RE3) no exit returns only zero values together with an error variable that the path has found to be nil."
	}
}

// checkValidationExact: the configuration validators accept enumerated values (auth scopes, plugin ops, bandwidth
// limit mode, …) only in the exact spelling the consumers compare with. The consumers use == / slices.Contains; a
// validator that folds case (EqualFold, ToLower, ToUpper) accepts a spelling that later matches nothing — the option is
// silently not in force. Case folding in package validation is allowed only where the value is *normalised for
// comparison with another configured value* (custom domain vs. subdomain host).
func checkValidationExact(c *engine.Ctx, rule string) {
	c.Rule(rule, "package validation folds letter case only when it compares a custom domain with the subdomain host; enumerated options are validated in the exact spelling their consumers compare with")
	p := c.P
	n, folds := 0, 0
	subF := p.Field("pkg/config/v1", "ServerConfig", "SubDomainHost")
	for _, f := range p.RepoFuncs() {
		if f.Pkg == nil || !strings.HasSuffix(f.Pkg.Pkg.Path(), "/pkg/config/v1/validation") {
			continue
		}
		n++
		f := f
		engine.ForEachInstr(f, func(in ssa.Instruction) {
			call, ok := in.(*ssa.Call)
			if !ok {
				return
			}
			o := engine.CalleeObj(call)
			if o == nil || o.Pkg() == nil || o.Pkg().Path() != "strings" || !(o.Name() == "EqualFold" || o.Name() == "ToLower" || o.Name() == "ToUpper") {
				return
			}
			// only comparisons with an enumeration are of interest: the folded value meets a package-level list or a
			// constant (membership test, EqualFold, ==); a fold that feeds a format check is not
			enum := false
			hasEnum := func(v ssa.Value) bool {
				src := engine.Provenance(v, engine.ProvOpts{})
				for g := range src.Globals {
					if _, isSl := engine.Deref(g.Type()).Underlying().(*types.Slice); isSl {
						return true
					}
				}
				if k, ok := engine.Unwrap(v).(*ssa.Const); ok && k.Value != nil {
					return true
				}
				for k := range src.Consts {
					if strings.HasPrefix(k, "\"") && len(k) > 2 {
						return true // a literal list of spellings
					}
				}
				// the element parameter of a predicate closure handed to a helper together with a package-level list
				if pr, ok := engine.Unwrap(v).(*ssa.Parameter); ok && pr.Parent() != nil && pr.Parent().Parent() != nil {
					found := false
					engine.ForEachInstr(pr.Parent().Parent(), func(x ssa.Instruction) {
						cc, ok := x.(ssa.CallInstruction)
						if !ok {
							return
						}
						usesClosure, hasList := false, false
						for _, a := range cc.Common().Args {
							if mc, ok := a.(*ssa.MakeClosure); ok && mc.Fn == ssa.Value(pr.Parent()) {
								usesClosure = true
							}
							for g := range engine.Provenance(a, engine.ProvOpts{}).Globals {
								if _, isSl := engine.Deref(g.Type()).Underlying().(*types.Slice); isSl {
									hasList = true
								}
							}
						}
						if usesClosure && hasList {
							found = true
						}
					})
					return found
				}
				return false
			}
			if o.Name() == "EqualFold" {
				enum = hasEnum(call.Call.Args[0]) || hasEnum(call.Call.Args[1])
			} else if refs := call.Referrers(); refs != nil {
				for _, r := range *refs {
					switch x := r.(type) {
					case *ssa.BinOp:
						if x.Op == token.EQL || x.Op == token.NEQ {
							enum = enum || hasEnum(x.X) || hasEnum(x.Y)
						}
					case *ssa.Call:
						if co := engine.CalleeObj(x); co != nil && (co.Name() == "Contains" || co.Name() == "Every" || co.Name() == "EqualFold" || co.Name() == "Index" || co.Name() == "ContainsBy") {
							for _, a := range x.Call.Args {
								if a != ssa.Value(call) && hasEnum(a) {
									enum = true
								}
							}
						}
					}
				}
			}
			if !enum {
				return
			}
			folds++
			// allowed: an operand derives from SubDomainHost, or from a parameter of a helper whose callers pass it
			okDomain := false
			root := f
			for root.Parent() != nil {
				root = root.Parent()
			}
			var callers []*ssa.Function
			for _, g := range p.RepoFuncs() {
				if g.Pkg == f.Pkg {
					callers = append(callers, g)
				}
			}
			for _, a := range call.Call.Args {
				if subF != nil && provThroughCallers(a, root, callers...).HasField(subF) {
					okDomain = true
				}
			}
			// the sibling operand of a comparison against the lowered subdomain host (the custom domain itself)
			if !okDomain && subF != nil {
				engine.ForEachInstr(f, func(x ssa.Instruction) {
					cc, ok := x.(*ssa.Call)
					if !ok {
						return
					}
					uses, sub := false, false
					for _, a := range cc.Call.Args {
						src := engine.Provenance(a, engine.ProvOpts{})
						if src.CallIns[call] {
							uses = true
						}
						if provThroughCallers(a, root, callers...).HasField(subF) {
							sub = true
						}
					}
					if uses && sub {
						okDomain = true
					}
				})
			}
			c.Check(okDomain, fmt.Sprintf("%s>%s#%d", p.FuncName(f), o.Name(), folds), in.Pos(), 2, nil,
				"case folding in a validator only normalises a custom domain against the subdomain host (an enumerated option accepted in another spelling matches nothing later)")
		})
	}
	c.Floor(n, 10)
}

// fnReachesFn: does `from` reach `to` through static calls inside its package (helpers split out of it; bounded depth)?
func fnReachesFn(from, to *ssa.Function) bool {
	seen := map[*ssa.Function]bool{}
	var walk func(g *ssa.Function, d int) bool
	walk = func(g *ssa.Function, d int) bool {
		if g == to {
			return true
		}
		if d > 4 || seen[g] || g == nil || g.Blocks == nil {
			return false
		}
		seen[g] = true
		hit := false
		engine.ForEachInstr(g, func(in ssa.Instruction) {
			if hit {
				return
			}
			switch x := in.(type) {
			case ssa.CallInstruction:
				if cf := engine.CalleeFn(x); cf != nil && cf.Pkg == from.Pkg && walk(cf, d+1) {
					hit = true
				}
			case *ssa.MakeClosure:
				if cf, ok := x.Fn.(*ssa.Function); ok && walk(cf, d+1) {
					hit = true
				}
			}
		})
		return hit
	}
	return walk(from, 0)
}

// argsOfType: the values a call passes that satisfy pred on their type — positional arguments, and the values stored into
// matching fields of a parameter-carrying struct built by the caller (passed by pointer or by value). A constructor whose
// long parameter list was grouped into a context struct is seen the same way as before.
func argsOfType(call ssa.CallInstruction, pred func(types.Type) bool) []ssa.Value {
	var out []ssa.Value
	for _, a := range engine.CallArgs(call) {
		if pred(a.Type()) {
			out = append(out, a)
			continue
		}
		v := engine.Unwrap(a)
		if u, ok := v.(*ssa.UnOp); ok && u.Op == token.MUL {
			v = u.X
		}
		al, ok := v.(*ssa.Alloc)
		if !ok {
			continue
		}
		st, ok := engine.Deref(al.Type()).Underlying().(*types.Struct)
		if !ok {
			continue
		}
		for i := 0; i < st.NumFields(); i++ {
			if pred(st.Field(i).Type()) {
				out = append(out, nameStores(al, st.Field(i))...)
			}
		}
	}
	return out
}

// userParams: the declared parameters of f without the receiver.
func userParams(f *ssa.Function) []*ssa.Parameter {
	if f.Signature.Recv() != nil && len(f.Params) > 0 {
		return f.Params[1:]
	}
	return f.Params
}

// stepThatDoes finds the instruction of h through which h does something: the instruction itself when pred holds for it,
// a call that is handed a closure doing it, or a call of a function of h's family (a step split out of h, see allAnon)
// that does it, directly or through its own steps. The last match in source order is returned (nil if none).
func stepThatDoes(h *ssa.Function, pred func(ssa.Instruction) bool) ssa.Instruction {
	all := stepsThatDo(h, pred)
	if len(all) == 0 {
		return nil
	}
	return all[len(all)-1]
}

// stepsThatDo: every such instruction of h, in source order.
func stepsThatDo(h *ssa.Function, pred func(ssa.Instruction) bool) []ssa.Instruction {
	fam := map[*ssa.Function]bool{}
	for _, g := range allAnon(h) {
		fam[g] = true
	}
	var does func(g *ssa.Function, depth int) bool
	does = func(g *ssa.Function, depth int) bool {
		if g == nil || g.Blocks == nil || depth > 3 {
			return false
		}
		hit := false
		engine.ForEachInstr(g, func(in ssa.Instruction) {
			if hit {
				return
			}
			if pred(in) {
				hit = true
				return
			}
			if call, ok := in.(ssa.CallInstruction); ok {
				for _, a := range call.Common().Args {
					if mc, ok := a.(*ssa.MakeClosure); ok {
						if cf, ok := mc.Fn.(*ssa.Function); ok && does(cf, depth+1) {
							hit = true
						}
					}
				}
				if cf := engine.CalleeFn(call); cf != nil && fam[cf] && does(cf, depth+1) {
					hit = true
				}
			}
		})
		return hit
	}
	var sites []ssa.Instruction
	engine.ForEachInstr(h, func(in ssa.Instruction) {
		hit := pred(in)
		if call, ok := in.(ssa.CallInstruction); ok && !hit {
			for _, a := range call.Common().Args {
				if mc, ok := a.(*ssa.MakeClosure); ok {
					if cf, ok := mc.Fn.(*ssa.Function); ok && does(cf, 1) {
						hit = true
					}
				}
			}
			if cf := engine.CalleeFn(call); cf != nil && fam[cf] && does(cf, 1) {
				hit = true
			}
		}
		if hit {
			sites = append(sites, in)
		}
	})
	return sites
}

// spilledResult: result #i of a return. In a function with defers the results are spilled (`*cell = v; rundefers;
// t = *cell; return t`): the value stored into the cell in the returning block is what this return returns.
func spilledResult(r *ssa.Return, i int) ssa.Value {
	v := r.Results[i]
	u, ok := v.(*ssa.UnOp)
	if !ok || u.Op != token.MUL {
		return v
	}
	al, ok := u.X.(*ssa.Alloc)
	if !ok {
		return v
	}
	instrs := r.Block().Instrs
	for j := len(instrs) - 1; j >= 0; j-- {
		if st, ok := instrs[j].(*ssa.Store); ok && st.Addr == ssa.Value(al) {
			return st.Val
		}
	}
	return v
}
