// Package rules holds the repository-specific rules, one file per property.
package rules

import (
	"go/token"
	"go/types"

	"golang.org/x/tools/go/ssa"

	"frpsa/engine"
)

// Property is the registration of one property's rule set.
type Property struct {
	Title       string
	Run         func(c *engine.Ctx)
	NeedDeps    bool // thorough tier loads dependency bodies
	Explanation string
	Assumptions []string
}

// Registry maps property id to its rules.
var Registry = map[string]*Property{}

var commonAssumptions = []string{
	"go/types, go/ssa and go/packages (x/tools v0.29.0) model the program faithfully; the default build configuration (linux/amd64, no tags) is a superset of the shipped frps/frpc builds",
	"every path of the SSA control-flow graph is considered feasible unless two recorded branch literals contradict; panics and os.Exit only remove paths",
	"reflection, unsafe and cgo do not mutate the analysed state (none is used on the analysed paths)",
	"dependency behaviour (golib codec/io/crypto, yamux, quic, net/http, x/time/rate) is trusted by version pin in quick tier",
}

// ---- small helpers shared by the rules ----

// fn resolves a symbolic function or records a missing anchor.
func fn(c *engine.Ctx, sym string) *ssa.Function {
	f := c.P.Fn(sym)
	if f == nil || f.Blocks == nil {
		c.Missing(sym, "function %s not found (renamed or moved: the one refactoring the checks cannot follow)", sym)
		return nil
	}
	return f
}

func method(c *engine.Ctx, pkg, typ, name string) *types.Func {
	m := c.P.MethodObj(pkg, typ, name)
	if m == nil {
		c.Missing(pkg+"."+typ+"."+name, "method %s.%s.%s not found", pkg, typ, name)
	}
	return m
}

func funcObj(c *engine.Ctx, pkg, name string) *types.Func {
	m := c.P.FuncObj(pkg, name)
	if m == nil {
		c.Missing(pkg+"."+name, "function %s.%s not found", pkg, name)
	}
	return m
}

func field(c *engine.Ctx, pkg, typ, name string) *types.Var {
	f := c.P.Field(pkg, typ, name)
	if f == nil {
		c.Missing(pkg+"."+typ+"."+name, "field %s.%s.%s not found", pkg, typ, name)
	}
	return f
}

// callMatcher matches call results of the given callees.
func resultOf(objs ...*types.Func) func(ssa.Value) bool {
	return engine.ResultOf(func(call *ssa.Call) bool {
		o := engine.CalleeObj(call)
		for _, x := range objs {
			if engine.SameFunc(o, x) {
				return true
			}
		}
		return false
	})
}

// loadOfField matches (loads of) the given struct field.
func loadOfField(f *types.Var) func(ssa.Value) bool {
	return func(v ssa.Value) bool {
		fv, _ := engine.LoadedField(engine.Unwrap(v))
		return fv != nil && fv == f
	}
}

func isParam(name string) func(ssa.Value) bool {
	return func(v ssa.Value) bool {
		switch x := v.(type) {
		case *ssa.Parameter:
			return x.Name() == name
		case *ssa.FreeVar:
			return x.Name() == name
		}
		return false
	}
}

func posOf(in ssa.Instruction) token.Pos {
	if in == nil {
		return token.NoPos
	}
	if p := in.Pos(); p.IsValid() {
		return p
	}
	// fall back to the nearest positioned instruction of the block
	if b := in.Block(); b != nil {
		for _, x := range b.Instrs {
			if x.Pos().IsValid() {
				return x.Pos()
			}
		}
		if b.Parent() != nil {
			return b.Parent().Pos()
		}
	}
	return token.NoPos
}

// firstCall returns the first call in f to one of objs (nil if none).
func firstCall(f *ssa.Function, objs ...*types.Func) ssa.CallInstruction {
	cs := engine.CallsTo(f, objs...)
	if len(cs) == 0 {
		return nil
	}
	return cs[0]
}
