package rules

import (
	"encoding/json"
	"go/types"
	"os"
	"path/filepath"
	"sort"
	"sync"

	"frpsa/engine"

	"golang.org/x/tools/go/ssa"
)

// Re-identification of renamed functions. golden/func_sigs.json records, for every function the rules anchor by name,
// its signature and the names that existed in its scope (the methods of its receiver type, or the package-level
// functions of its package) on the confirmed tree. When an anchored name is gone, the function is re-identified as the
// only function of that scope that (a) has a name the confirmed tree did not have and (b) has the recorded signature —
// provided the anchored name is also the only vanished name of the scope with that signature. Anything less certain
// leaves the anchor missing (which fails the check). The table is used for nothing else: a function that still exists
// by name is never looked up in it.
type funcGolden struct {
	Sigs  map[string]string   `json:"sigs"`  // "pkg.Type.name" or "pkg..name" -> signature
	Names map[string][]string `json:"names"` // "pkg.Type" or "pkg." -> names of the scope
	Calls map[string][]string `json:"calls"` // anchor -> names of the functions its body calls (tie-breaker only)
}

// calleeNames: the distinct names of the statically resolved callees of f's body (closures included).
func calleeNames(p *engine.Prog, f *types.Func) []string {
	sf := p.FuncOf(f)
	if sf == nil {
		return nil
	}
	set := map[string]bool{}
	var walk func(g *ssa.Function)
	walk = func(g *ssa.Function) {
		engine.ForEachInstr(g, func(in ssa.Instruction) {
			if call, ok := in.(ssa.CallInstruction); ok {
				if o := engine.CalleeObj(call); o != nil {
					set[o.FullName()] = true
				}
			}
		})
		for _, a := range g.AnonFuncs {
			walk(a)
		}
	}
	walk(sf)
	var out []string
	for k := range set {
		out = append(out, k)
	}
	sort.Strings(out)
	return out
}

func similarity(a, b []string) float64 {
	if len(a) == 0 && len(b) == 0 {
		return 0
	}
	in := map[string]bool{}
	for _, x := range a {
		in[x] = true
	}
	common := 0
	for _, x := range b {
		if in[x] {
			common++
		}
	}
	return float64(common) / float64(len(a)+len(b)-common)
}

var (
	funcGoldOnce sync.Once
	funcGold     funcGolden
	funcSeenMu   sync.Mutex
	funcSeen     = funcGolden{Sigs: map[string]string{}, Names: map[string][]string{}, Calls: map[string][]string{}}
)

func funcGoldenTab() *funcGolden {
	funcGoldOnce.Do(func() {
		funcGold = funcGolden{Sigs: map[string]string{}, Names: map[string][]string{}, Calls: map[string][]string{}}
		if b, err := os.ReadFile(filepath.Join(verifDirOf(), "golden", "func_sigs.json")); err == nil {
			_ = json.Unmarshal(b, &funcGold)
		}
	})
	return &funcGold
}

func sigKey(f *types.Func) string { return typeKey(f.Type()) }

func init() {
	engine.FuncFound = func(p *engine.Prog, pkg, typ, name string, f *types.Func) {
		if os.Getenv("FRPSA_WRITE_GOLDEN") != "1" {
			return
		}
		funcSeenMu.Lock()
		defer funcSeenMu.Unlock()
		k := pkg + "." + typ + "." + name
		if _, done := funcSeen.Sigs[k]; done {
			return
		}
		funcSeen.Sigs[k] = sigKey(f)
		funcSeen.Calls[k] = calleeNames(p, f)
		var names []string
		for _, g := range p.ScopeFuncs(pkg, typ) {
			names = append(names, g.Name())
		}
		sort.Strings(names)
		funcSeen.Names[pkg+"."+typ] = names
		path := filepath.Join(verifDirOf(), "golden", "func_sigs.json")
		cur := funcGolden{Sigs: map[string]string{}, Names: map[string][]string{}, Calls: map[string][]string{}}
		if b, err := os.ReadFile(path); err == nil {
			_ = json.Unmarshal(b, &cur)
		}
		if cur.Calls == nil {
			cur.Calls = map[string][]string{}
		}
		for k, v := range funcSeen.Calls {
			cur.Calls[k] = v
		}
		for k, v := range funcSeen.Sigs {
			cur.Sigs[k] = v
		}
		for k, v := range funcSeen.Names {
			cur.Names[k] = v
		}
		b, _ := json.MarshalIndent(cur, "", " ")
		_ = os.WriteFile(path, b, 0o644)
	}
	engine.FuncRenamed = func(p *engine.Prog, pkg, typ, name string) *types.Func {
		tab := funcGoldenTab()
		want, ok := tab.Sigs[pkg+"."+typ+"."+name]
		if !ok {
			return nil
		}
		old := map[string]bool{}
		for _, n := range tab.Names[pkg+"."+typ] {
			old[n] = true
		}
		cur := map[string]bool{}
		var fresh []*types.Func
		for _, g := range p.ScopeFuncs(pkg, typ) {
			cur[g.Name()] = true
			if !old[g.Name()] && sigKey(g) == want {
				fresh = append(fresh, g)
			}
		}
		// the anchored name must be the only vanished name of the scope with this signature
		vanished := 0
		for n := range old {
			if !cur[n] && tab.Sigs[pkg+"."+typ+"."+n] == want {
				vanished++
			}
		}
		if len(fresh) == 1 && vanished <= 1 {
			return fresh[0]
		}
		// several functions of one signature were renamed together: tell them apart by what their bodies call; accept
		// only a clear winner (the best candidate shares most of the recorded callees, the runner-up clearly fewer)
		if len(fresh) > 1 {
			want := tab.Calls[pkg+"."+typ+"."+name]
			best, second := -1.0, -1.0
			var bestF *types.Func
			for _, g := range fresh {
				s := similarity(want, calleeNames(p, g))
				if s > best {
					best, second, bestF = s, best, g
				} else if s > second {
					second = s
				}
			}
			if best >= 0.6 && best-second >= 0.25 {
				return bestF
			}
		}
		return nil
	}
}
