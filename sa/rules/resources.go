package rules

import (
	"go/types"
	"sort"

	"golang.org/x/tools/go/ssa"

	"frpsa/engine"
)

// resKind describes one kind of server resource by the API that acquires it and the API(s) that release it.
// The table is derived from the call targets in server/proxy, server/group and server/control (P9).
type resKind struct {
	name     string
	acquire  []*types.Func
	release  []*types.Func
	listener bool // the acquire call returns a closer (listener / conn) whose Close releases the resource
}

type resTable struct {
	kinds []*resKind
	p     *engine.Prog
}

func buildResTable(c *engine.Ctx) *resTable {
	p := c.P
	m := func(pkg, typ, name string) *types.Func { return p.MethodObj(pkg, typ, name) }
	t := &resTable{p: p}
	add := func(k *resKind) {
		for _, f := range append(append([]*types.Func{}, k.acquire...), k.release...) {
			if f == nil {
				c.Missing("resource-table:"+k.name, "an acquire/release API of resource kind %s was not found", k.name)
				return
			}
		}
		t.kinds = append(t.kinds, k)
	}
	add(&resKind{name: "port", acquire: []*types.Func{m("server/ports", "Manager", "Acquire")}, release: []*types.Func{m("server/ports", "Manager", "Release")}})
	add(&resKind{name: "tcp-group-member", acquire: []*types.Func{m("server/group", "TCPGroupCtl", "Listen")}, listener: true})
	add(&resKind{name: "tcpmux-group-member", acquire: []*types.Func{m("server/group", "TCPMuxGroupCtl", "Listen")}, listener: true})
	add(&resKind{name: "vhost-listener", acquire: []*types.Func{m("pkg/util/vhost", "Muxer", "Listen")}, listener: true})
	add(&resKind{name: "http-route", acquire: []*types.Func{m("pkg/util/vhost", "HTTPReverseProxy", "Register")}, release: []*types.Func{m("pkg/util/vhost", "HTTPReverseProxy", "UnRegister")}})
	add(&resKind{name: "http-group-member", acquire: []*types.Func{m("server/group", "HTTPGroupController", "Register")}, release: []*types.Func{m("server/group", "HTTPGroupController", "UnRegister")}})
	add(&resKind{name: "visitor-entry", acquire: []*types.Func{m("server/visitor", "Manager", "Listen")}, release: []*types.Func{m("server/visitor", "Manager", "CloseListener")}}) // closing the internal listener does not remove the registry entry
	add(&resKind{name: "nathole-entry", acquire: []*types.Func{m("pkg/nathole", "Controller", "ListenClient")}, release: []*types.Func{m("pkg/nathole", "Controller", "CloseClient")}})
	add(&resKind{name: "proxy-name", acquire: []*types.Func{m("server/proxy", "Manager", "Add")}, release: []*types.Func{m("server/proxy", "Manager", "Del")}})
	// OS sockets
	var netListen, netListenUDP *types.Func
	if pk := p.ByPath["net"]; pk != nil && pk.Types != nil {
		netListen, _ = pk.Types.Scope().Lookup("Listen").(*types.Func)
		netListenUDP, _ = pk.Types.Scope().Lookup("ListenUDP").(*types.Func)
	}
	add(&resKind{name: "os-socket", acquire: []*types.Func{netListen, netListenUDP}, listener: true})
	return t
}

func (t *resTable) acquireKind(o *types.Func) *resKind {
	for _, k := range t.kinds {
		for _, a := range k.acquire {
			if engine.SameFunc(a, o) {
				return k
			}
		}
	}
	return nil
}

func (t *resTable) releaseKinds(o *types.Func) []*resKind {
	var out []*resKind
	for _, k := range t.kinds {
		for _, a := range k.release {
			if engine.SameFunc(a, o) {
				out = append(out, k)
			}
		}
	}
	return out
}

// methodsOf returns the SSA functions of all methods declared on the named type (pointer and value receivers).
func methodsOf(p *engine.Prog, n *types.Named) map[*types.Func]*ssa.Function {
	out := map[*types.Func]*ssa.Function{}
	for i := 0; i < n.NumMethods(); i++ {
		m := n.Method(i)
		if f := p.FuncOf(m); f != nil {
			out[m] = f
		}
	}
	return out
}

// ownCallees returns f plus, transitively, the anonymous functions it contains and the methods of the given
// receiver types it calls statically (the "own code" of a proxy type).
func ownClosure(p *engine.Prog, f *ssa.Function, own map[*types.Func]*ssa.Function) []*ssa.Function {
	seen := map[*ssa.Function]bool{}
	var out []*ssa.Function
	var walk func(g *ssa.Function)
	walk = func(g *ssa.Function) {
		if g == nil || seen[g] || g.Blocks == nil {
			return
		}
		seen[g] = true
		out = append(out, g)
		for _, a := range g.AnonFuncs {
			walk(a)
		}
		engine.ForEachInstr(g, func(in ssa.Instruction) {
			call, ok := in.(ssa.CallInstruction)
			if !ok {
				return
			}
			if o := engine.CalleeObj(call); o != nil {
				if fn, ok := own[o.Origin()]; ok {
					walk(fn)
				}
			}
			// an own method handed over as a method value (once.Do(pxy.release), time.AfterFunc(d, pxy.stop))
			for _, a := range call.Common().Args {
				if mc, ok := a.(*ssa.MakeClosure); ok {
					if bf, ok := mc.Fn.(*ssa.Function); ok && bf.Synthetic != "" {
						if mo, ok := bf.Object().(*types.Func); ok {
							if fn, ok := own[mo.Origin()]; ok {
								walk(fn)
							}
						}
					}
				}
			}
		})
	}
	walk(f)
	return out
}

func kindNames(m map[*resKind]bool) []string {
	var s []string
	for k := range m {
		s = append(s, k.name)
	}
	sort.Strings(s)
	return s
}

// isCloserClose: call x.Close() on a value (listener/conn) — any method named Close with no parameters.
func isCloserClose(call ssa.CallInstruction) bool {
	o := engine.CalleeObj(call)
	if o == nil || o.Name() != "Close" {
		return false
	}
	sig, ok := o.Type().(*types.Signature)
	return ok && sig.Params().Len() == 0
}
