package rules

import (
	"fmt"
	"go/token"
	"go/types"
	"sort"
	"strings"

	"golang.org/x/tools/go/ssa"

	"frpsa/engine"
)

// Wrapper-stack analysis shared by C01.R1, C05.R5 and C08.R6.
//
// A "stack builder" is any repo function that calls libio.WithEncryption or libio.WithCompression[FromPool].
// For every path of such a function the chain of layers around the wire connection is reconstructed by walking
// the stream value backwards through the known wrappers.

type layerKind string

const (
	layerEnc   layerKind = "encryption"
	layerComp  layerKind = "compression"
	layerLimit layerKind = "limiter"
)

type layer struct {
	kind layerKind
	call *ssa.Call
}

func calleeIs(call *ssa.Call, pkgSuffix string, names ...string) bool {
	o := engine.CalleeObj(call)
	if o == nil || o.Pkg() == nil || !strings.HasSuffix(o.Pkg().Path(), pkgSuffix) {
		return false
	}
	for _, n := range names {
		if o.Name() == n {
			return true
		}
	}
	return false
}

// streamChain walks v (as seen on path st) from the outermost wrapper to the wire value.
func streamChain(st *engine.PathState, v ssa.Value) (layers []layer, base ssa.Value, problems []string) {
	for i := 0; i < 16; i++ {
		v = engine.Unwrap(st.Resolve(engine.Unwrap(v)))
		var call *ssa.Call
		switch x := v.(type) {
		case *ssa.Extract:
			c, ok := x.Tuple.(*ssa.Call)
			if !ok || x.Index != 0 {
				return layers, v, problems
			}
			call = c
		case *ssa.Call:
			call = x
		default:
			return layers, v, problems
		}
		switch {
		case calleeIs(call, "golib/io", "WithEncryption"):
			layers = append(layers, layer{layerEnc, call})
			v = call.Call.Args[0]
		case calleeIs(call, "golib/io", "WithCompression", "WithCompressionFromPool"):
			layers = append(layers, layer{layerComp, call})
			v = call.Call.Args[0]
		case calleeIs(call, "golib/io", "WrapReadWriteCloser"):
			// reader and writer halves: limit.NewReader(x, l) / limit.NewWriter(y, l)
			r, _ := engine.ResultOfCall(engine.Unwrap(st.Resolve(call.Call.Args[0])))
			w, _ := engine.ResultOfCall(engine.Unwrap(st.Resolve(call.Call.Args[1])))
			if r != nil && w != nil && calleeIs(r, "/pkg/util/limit", "NewReader") && calleeIs(w, "/pkg/util/limit", "NewWriter") {
				rs := engine.Unwrap(st.Resolve(engine.Unwrap(r.Call.Args[0])))
				ws := engine.Unwrap(st.Resolve(engine.Unwrap(w.Call.Args[0])))
				if !engine.SameValue(rs, ws) {
					problems = append(problems, "the limiter's reader wraps "+engine.Describe(rs)+" but its writer wraps "+engine.Describe(ws))
				}
				if !engine.SameExpr(r.Call.Args[1], w.Call.Args[1]) {
					problems = append(problems, "the limiter's reader and writer use different rate limiters (two buckets instead of one shared by both directions)")
				}
				layers = append(layers, layer{layerLimit, call})
				v = r.Call.Args[0]
				continue
			}
			return layers, v, problems
		case calleeIs(call, "/pkg/util/net", "WrapReadWriteCloserToConn", "WrapStatsConn", "NewContextConn", "WrapCloseNotifyConn"):
			if o := engine.CalleeObj(call); o.Name() == "NewContextConn" {
				v = call.Call.Args[1]
			} else {
				v = call.Call.Args[0]
			}
		default:
			return layers, v, problems
		}
	}
	return layers, v, problems
}

func isFlag(name string) func(ssa.Value) bool {
	lower := strings.ToLower(name[:1]) + name[1:]
	return func(v ssa.Value) bool {
		v = engine.Unwrap(v)
		if fv, _ := engine.LoadedField(v); fv != nil && fv.Name() == name {
			return true
		}
		if isParam(lower)(v) {
			return true
		}
		return false
	}
}

// keyClass classifies the provenance of an encryption key: "token", "secret" or "".
func keyClass(v ssa.Value) string {
	src := engine.Provenance(v, engine.ProvOpts{})
	tok, sec := false, false
	for fv := range src.Fields {
		// classes by what the field holds: the configuration fields are Token / SecretKey (Secretkey in the legacy
		// structs); private copies of the secret (listenerBundle.sk, ClientCfg.sk) may be renamed, so any field whose
		// name says "secret" (or the historical "sk") counts as the secret class
		ln := strings.ToLower(fv.Name())
		switch {
		case ln == "token":
			tok = true
		case ln == "sk" || strings.Contains(ln, "secret"):
			sec = true
		}
	}
	switch {
	case tok && !sec:
		return "token"
	case sec && !tok:
		return "secret"
	}
	if src.HasParam("encKey") {
		return "param:encKey"
	}
	return ""
}

// expected key class per stack builder (pairing table: both ends of one stream must agree)
var stackKeyClass = map[string]string{
	"server/proxy.BaseProxy.handleUserTCPConnection": "token", // ↔ client BaseProxy.HandleTCPWorkConnection via InWorkConn (token)
	"server/proxy.HTTPProxy.GetRealConn":             "token", // ↔ client HandleTCPWorkConnection (token)
	"server/proxy.UDPProxy.Run":                      "token", // ↔ client UDPProxy.InWorkConn (token)
	"client/proxy.UDPProxy.InWorkConn":               "token",
	"client/proxy.SUDPProxy.InWorkConn":              "token",        // ↔ server BaseProxy (token) on the owner's side of the sudp stream
	"client/proxy.BaseProxy.HandleTCPWorkConnection": "param:encKey", // callers decide: token (tcp-class) or secret (xtcp)
	"server/visitor.Manager.NewConn":                 "secret",       // ↔ client visitors (secret)
	"client/visitor.STCPVisitor.handleConn":          "secret",
	"client/visitor.SUDPVisitor.getNewVisitorConn":   "secret",
	"client/visitor.XTCPVisitor.handleConn":          "secret", // ↔ client XTCPProxy → HandleTCPWorkConnection(secret)
}

// stackClassOf looks a builder up in the pairing table by identity: the table's symbolic names are resolved through the
// program, so an entry follows its function when that is renamed (see renames.go).
func stackClassOf(p *engine.Prog, f *ssa.Function) (string, bool) {
	if cls, ok := stackKeyClass[p.FuncName(f)]; ok {
		return cls, true
	}
	for sym, cls := range stackKeyClass {
		if g := p.Fn(sym); g != nil && g == f {
			return cls, true
		}
	}
	return "", false
}

func checkStacks(c *engine.Ctx, rule string) {
	p := c.P
	c.Rule(rule, "every function that builds a tunnel wrapper stack: both layers present; encryption applied exactly when UseEncryption and compression exactly when UseCompression; encryption sits next to the wire with compression above it; every later consumer of the wire stream (limiter, join, hand-off) receives a stream that contains every layer already applied; the limiter's two halves wrap the same stream with the same bucket; the key class (token / secret) matches the peer's")
	builders := 0
	for _, f := range p.RepoFuncs() {
		var encs, comps []*ssa.Call
		engine.ForEachInstr(f, func(in ssa.Instruction) {
			if call, ok := in.(*ssa.Call); ok {
				if calleeIs(call, "golib/io", "WithEncryption") {
					encs = append(encs, call)
				}
				if calleeIs(call, "golib/io", "WithCompression", "WithCompressionFromPool") {
					comps = append(comps, call)
				}
			}
		})
		if len(encs)+len(comps) == 0 {
			continue
		}
		builders++
		name := p.FuncName(f)
		// closures are reported under their enclosing method
		root := f
		for root.Parent() != nil {
			root = root.Parent()
		}
		rname := p.FuncName(root)
		if len(encs) != 1 || len(comps) != 1 {
			c.Violate(name+">layers", f.Pos(), nil, "stack builder has %d encryption and %d compression layers (one of each expected: a peer that applies a layer the other side lacks corrupts the stream)", len(encs), len(comps))
			continue
		}
		enc, comp := encs[0], comps[0]
		// a bool parameter (under any name) that is true on every path to a layer switches that layer; which declared
		// flag it carries is decided at the call sites (rule b')
		guardParam := func(call *ssa.Call) (int, *ssa.Parameter) {
			for i, pr := range root.Params {
				if b, ok := pr.Type().Underlying().(*types.Basic); !ok || b.Kind() != types.Bool {
					continue
				}
				q := &engine.PathQuery{Fn: f, Sink: engine.Is(call), KeepLoopFacts: true}
				states, err := q.Run()
				if err != nil || len(states) == 0 {
					continue
				}
				guards := true
				for _, st := range states {
					if v, k := st.Truth(func(x ssa.Value) bool { return engine.Unwrap(x) == ssa.Value(pr) || isCellOfParam(x, pr.Name()) }); !(k && v) {
						guards = false
					}
				}
				if guards {
					return i, pr
				}
			}
			return -1, nil
		}
		// (b) flags
		for _, lc := range []struct {
			call *ssa.Call
			flag string
		}{{enc, "UseEncryption"}, {comp, "UseCompression"}} {
			lc := lc
			_, gp := guardParam(lc.call)
			c.AllPaths(name+">"+lc.flag, engine.PathCheck{Fn: f, Sink: engine.Is(lc.call), KeepLoopFacts: true, Pred: func(st *engine.PathState) string {
				if gp != nil {
					return ""
				}
				if v, k := st.Truth(isFlag(lc.flag)); !(k && v) {
					return "the layer is applied on a path where " + lc.flag + " was not found true"
				}
				return ""
			}}, "layer applied only under %s", lc.flag)
		}
		// (b') a flag that arrives as a parameter: every call site passes the matching declared flag (a bool pair
		// crossed at one call site un-wraps the peer's stream with the wrong transform)
		for _, lc := range []struct {
			call *ssa.Call
			flag string
		}{{enc, "UseEncryption"}, {comp, "UseCompression"}} {
			{
				i, pr := guardParam(lc.call)
				if pr == nil {
					continue
				}
				robj, _ := root.Object().(*types.Func)
				if robj == nil {
					continue
				}
				other := "UseCompression"
				if lc.flag == "UseCompression" {
					other = "UseEncryption"
				}
				for _, g := range p.RepoFuncs() {
					for _, cs := range engine.CallsTo(g, robj) {
						if i >= len(cs.Common().Args) {
							continue
						}
						src := engine.Provenance(cs.Common().Args[i], engine.ProvOpts{})
						has, crossed := false, false
						for fv := range src.Fields {
							if fv.Name() == lc.flag {
								has = true
							}
							if fv.Name() == other {
								crossed = true
							}
						}
						c.Check(has && !crossed, fmt.Sprintf("%s>%s-argument@%s", rname, lc.flag, p.FuncName(g)), cs.Pos(), 2, []string{"argument sources: " + src.Summary()},
							"the parameter of %s that switches the %s layer receives the message's %s", rname, lc.flag, lc.flag)
					}
				}
			}
		}
		// (c)(e)(consumers) per path: at every consumer of the wire stream
		isConsumer := func(in ssa.Instruction) (ssa.Value, string) {
			switch x := in.(type) {
			case *ssa.Call:
				switch {
				case calleeIs(x, "golib/io", "Join"):
					return nil, "join" // both args examined below
				case calleeIs(x, "/pkg/util/limit", "NewReader", "NewWriter"):
					return x.Call.Args[0], "limiter"
				case calleeIs(x, "/pkg/util/net", "WrapReadWriteCloserToConn"):
					return x.Call.Args[0], "conn-wrap"
				case calleeIs(x, "/pkg/util/net", "PutConn"):
					return x.Call.Args[len(x.Call.Args)-1], "hand-off"
				}
				if o := engine.CalleeObj(x); o != nil && o.Name() == "PutConn" {
					return x.Call.Args[len(x.Call.Args)-1], "hand-off"
				}
			case *ssa.Store:
				if fv, _ := engine.LoadedField(x.Addr); fv != nil && fv.Name() == "Conn" && fv.Pkg() != nil && strings.HasSuffix(fv.Pkg().Path(), "plugin/client") {
					return x.Val, "plugin hand-off"
				}
			case *ssa.Return:
				return nil, "return"
			case *ssa.Go:
				return nil, "go"
			}
			return nil, ""
		}
		// The generic AllPaths ends a path at its first sink; consumers need every sink on the path, so run the query directly.
		q := &engine.PathQuery{Fn: f, KeepLoopFacts: true, ContinueAfterSink: true,
			Sink: func(in ssa.Instruction) bool { _, k := isConsumer(in); return k != "" },
			Event: func(in ssa.Instruction) string {
				if in == ssa.Instruction(enc) {
					return "enc"
				}
				if in == ssa.Instruction(comp) {
					return "comp"
				}
				return ""
			}}
		states, err := q.Run()
		if err != nil {
			c.Undecide(name+">consumers", f.Pos(), "%v", err)
			continue
		}
		bad := ""
		var badPos token.Pos
		nCons := 0
		for _, st := range states {
			var args []ssa.Value
			kind := ""
			switch x := st.Sink.(type) {
			case *ssa.Call:
				a, k := isConsumer(x)
				kind = k
				if k == "join" {
					args = append(args, x.Call.Args...)
				} else if a != nil {
					args = append(args, a)
				}
			case *ssa.Store:
				a, k := isConsumer(x)
				kind = k
				args = append(args, a)
			case *ssa.Return:
				kind = "return"
				for _, r := range x.Results {
					if isStreamType(r.Type()) {
						args = append(args, r)
					}
				}
			case *ssa.Go:
				kind = "go"
				for _, a := range x.Call.Args {
					if isStreamType(a.Type()) {
						args = append(args, a)
					}
				}
			}
			// wire root on this path: base of the enc input (if enc ran) else of comp input
			for _, a := range args {
				layers, base, probs := streamChain(st, a)
				// which executed layers should be inside?
				wire := wireRoot(st, enc, comp)
				if wire == nil || !engine.SameValue(base, wire) {
					continue // a different connection (the user side, the local service)
				}
				nCons++
				if len(probs) > 0 && bad == "" {
					bad, badPos = probs[0], st.Sink.Pos()
				}
				has := map[layerKind]int{}
				for i, l := range layers {
					has[l.kind] = i + 1
				}
				for _, ev := range []struct {
					tag  string
					kind layerKind
				}{{"enc", layerEnc}, {"comp", layerComp}} {
					if st.HasEvent(ev.tag) && has[ev.kind] == 0 && bad == "" {
						bad = fmt.Sprintf("the %s consumer at %s receives %s, which does not contain the %s layer already applied on this path: the bytes bypass that layer", kind, p.Pos(posOf(st.Sink)), engine.Describe(st.Resolve(a)), ev.kind)
						badPos = st.Sink.Pos()
					}
				}
				if has[layerEnc] > 0 && has[layerComp] > 0 && has[layerEnc] < has[layerComp] && bad == "" {
					bad = "encryption is applied above compression (compressed-then-encrypted on one side, the peer expects encrypt next to the wire)"
					badPos = st.Sink.Pos()
				}
			}
		}
		// a stream stored into a field of the receiver is visible to the goroutines that use that field from that moment:
		// it must not be stored before the configured layers are applied to it (the raw wire would be written to)
		if bad == "" {
			engine.ForEachInstr(f, func(in ssa.Instruction) {
				st, ok := in.(*ssa.Store)
				if !ok || bad != "" || !isStreamType(st.Val.Type()) {
					return
				}
				fv, base := engine.LoadedField(st.Addr)
				if fv == nil || base == nil {
					return
				}
				if _, local := base.(*ssa.Alloc); local {
					return
				}
				for _, layer := range []*ssa.Call{enc, comp} {
					if layer != nil && engine.InstrReaches(in, layer) && !engine.InstrReaches(layer, in) {
						bad = fmt.Sprintf("the stream is stored into field %s at %s before the %s layer is applied further down: whoever uses that field meanwhile writes to the raw connection", fv.Name(), p.Pos(in.Pos()), engine.Describe(layer))
						badPos = in.Pos()
					}
				}
			})
		}
		if bad != "" {
			c.Violate(name+">consumers", badPos, nil, "%s", bad)
		} else if nCons == 0 {
			c.Undecide(name+">consumers", f.Pos(), "no consumer of the wrapped wire stream recognised in %s", name)
		} else {
			c.Hold(name+">consumers", f.Pos(), q.Steps, []string{fmt.Sprintf("%d consumer uses of the wire stream examined on %d path states", nCons, len(states))}, "every consumer of the wire stream receives all layers applied so far, encryption innermost")
		}
		// (d) key class
		want, known := stackClassOf(p, root)
		if !known {
			// a builder extracted out of a tabled one (unexported, called from it): it inherits the caller's pairing
			if robj, _ := root.Object().(*types.Func); robj != nil && !robj.Exported() {
				classes := map[string]bool{}
				for _, g := range p.RepoFuncs() {
					if len(engine.CallsTo(g, robj)) == 0 {
						continue
					}
					gr := g
					for gr.Parent() != nil {
						gr = gr.Parent()
					}
					if cls, ok := stackClassOf(p, gr); ok {
						classes[cls] = true
					} else {
						classes["?"] = true
					}
				}
				if len(classes) == 1 && !classes["?"] {
					for cls := range classes {
						want, known = cls, true
					}
				}
			}
		}
		got := keyClass(enc.Call.Args[1])
		if !known {
			c.Undecide(name+">key", enc.Pos(), "new stack builder %s: its key class pairing is not in the confirmed table", rname)
		} else {
			c.Check(got == want, name+">key", enc.Pos(), 2, []string{"key: " + engine.Describe(enc.Call.Args[1])}, "encryption key class is %q as its peer expects (found %q)", want, got)
		}
	}
	// callers of HandleTCPWorkConnection decide its key class: token for tcp-class proxies, secret for xtcp
	if h := p.MethodObj("client/proxy", "BaseProxy", "HandleTCPWorkConnection"); h != nil {
		for _, f := range p.RepoFuncs() {
			for _, call := range engine.CallsTo(f, h) {
				args := engine.CallArgs(call)
				got := keyClass(args[len(args)-1])
				root := f
				for root.Parent() != nil {
					root = root.Parent()
				}
				want := "token"
				if strings.Contains(p.FuncName(root), "XTCP") {
					want = "secret"
				}
				c.Check(got == want, p.FuncName(f)+">key-for-HandleTCPWorkConnection", call.Pos(), 2, nil, "work-connection key class %q (found %q)", want, got)
			}
		}
	}
	var names []string
	for k := range stackKeyClass {
		names = append(names, k)
	}
	sort.Strings(names)
	c.Floor(builders, 10)
}

func isStreamType(t types.Type) bool {
	ms := types.NewMethodSet(t)
	r, w := false, false
	for i := 0; i < ms.Len(); i++ {
		switch ms.At(i).Obj().Name() {
		case "Read":
			r = true
		case "Write":
			w = true
		}
	}
	return r && w
}

// wireRoot: the base connection under the layers on this path.
func wireRoot(st *engine.PathState, enc, comp *ssa.Call) ssa.Value {
	for _, l := range []*ssa.Call{enc, comp} {
		_, base, _ := streamChain(st, l.Call.Args[0])
		if base != nil {
			if _, isConst := base.(*ssa.Const); !isConst {
				return base
			}
		}
	}
	return nil
}
