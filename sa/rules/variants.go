package rules

// Variant is one in-memory source edit used by the thorough-tier self-test.
type Variant struct {
	Name   string // unique within the property
	File   string // repo-relative path
	Old    string // exact text to replace (first occurrence)
	New    string
	Benign bool   // true: behaviour-preserving edit that must stay silent
	Expect string // breaking: substring of the obligation key that must report (e.g. "C04.R1")
	Why    string // what the edit does
	Patch  string // alternative to File/Old/New: path of a unified diff (seeded change)
}

// Variants maps property id to its edit table.
var Variants = map[string][]Variant{}
