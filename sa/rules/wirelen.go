package rules

import (
	"go/token"
	"go/types"

	"golang.org/x/tools/go/ssa"

	"frpsa/engine"
)

// c16WireLengthArith (C16.R24): an integer decoded from peer-supplied bytes (encoding/binary Uint16/32/64) that takes
// part in arithmetic before it bounds a slice expression, an index or an allocation can wrap around (4+0xFFFFFFFE is 2
// in uint32): the length check that follows is then passed by a tiny value and the slice expression panics with
// low > high — in a goroutine without recover that is the end of the process. The arithmetic must be preceded, on every
// path, by a comparison that bounds the decoded value itself from above.
func c16WireLengthArith(c *engine.Ctx, rule string) {
	c.Rule(rule, "an integer decoded with encoding/binary from received bytes reaches a slice bound, an index or an allocation size through arithmetic (+, -, *, <<) only on paths where the decoded value itself was first bounded from above by a comparison: unsigned arithmetic on an unchecked wire length wraps and the later length check passes")
	p := c.P
	n := 0
	for _, f := range p.RepoFuncs() {
		f := f
		var raws []ssa.Value
		engine.ForEachInstr(f, func(in ssa.Instruction) {
			call, ok := in.(*ssa.Call)
			if !ok {
				return
			}
			var o *types.Func
			if call.Call.IsInvoke() {
				o = call.Call.Method
			} else {
				o = engine.CalleeObj(call)
			}
			if o == nil || o.Pkg() == nil || o.Pkg().Path() != "encoding/binary" {
				return
			}
			switch o.Name() {
			case "Uint16", "Uint32", "Uint64":
				raws = append(raws, call)
			}
		})
		for _, raw := range raws {
			raw := raw
			// values equal to the decoded one (conversions only)
			same := map[ssa.Value]bool{raw: true}
			arith := map[ssa.Value]bool{}
			var firstArith []*ssa.BinOp
			work := []ssa.Value{raw}
			for len(work) > 0 {
				v := work[0]
				work = work[1:]
				refs := v.Referrers()
				if refs == nil {
					continue
				}
				for _, r := range *refs {
					switch x := r.(type) {
					case *ssa.Convert:
						if same[v] && !same[x] {
							same[x] = true
							work = append(work, x)
						} else if arith[v] && !arith[x] {
							arith[x] = true
							work = append(work, x)
						}
					case *ssa.ChangeType:
						if same[v] && !same[x] {
							same[x] = true
							work = append(work, x)
						} else if arith[v] && !arith[x] {
							arith[x] = true
							work = append(work, x)
						}
					case *ssa.Phi:
						if !arith[x] && arith[v] {
							arith[x] = true
							work = append(work, x)
						}
					case *ssa.BinOp:
						switch x.Op {
						case token.ADD, token.SUB, token.MUL, token.SHL:
							if !arith[x] {
								arith[x] = true
								work = append(work, x)
								if same[v] {
									firstArith = append(firstArith, x)
								}
							}
						}
					}
				}
			}
			// does any arithmetic result bound a slice / index / allocation?
			reaches := false
			var sink ssa.Instruction
			engine.ForEachInstr(f, func(in ssa.Instruction) {
				use := func(v ssa.Value) {
					if v != nil && arith[v] && !reaches {
						reaches, sink = true, in
					}
				}
				switch x := in.(type) {
				case *ssa.Slice:
					use(x.Low)
					use(x.High)
					use(x.Max)
				case *ssa.IndexAddr:
					use(x.Index)
				case *ssa.Index:
					use(x.Index)
				case *ssa.MakeSlice:
					use(x.Len)
					use(x.Cap)
				}
			})
			if !reaches || len(firstArith) == 0 {
				continue
			}
			for _, b := range firstArith {
				n++
				c.AllPaths(p.FuncName(f)+">wire-length-arithmetic", engine.PathCheck{Fn: f, Sink: engine.Is(b), KeepLoopFacts: true, Pred: func(st *engine.PathState) string {
					bounded := st.Ordered(func(x ssa.Value, op token.Token, y ssa.Value) bool {
						return same[x] && !same[y] && !arith[y] && (op == token.LSS || op == token.LEQ)
					})
					if bounded {
						return ""
					}
					return "the decoded length takes part in " + b.Op.String() + " before anything bounds it, and the result bounds " + engine.Describe(sink.(ssa.Value)) + ": a length near the type's maximum wraps, passes the later check and the slice expression panics"
				}}, "wire length bounded before arithmetic")
			}
		}
	}
	c.Floor(n, 1)
}
