#!/bin/bash
# usage: benigntest.sh <dir-with-patch.diff>  — applies a behaviour-preserving refactoring in a scratch worktree and
# runs ALL checks (in parallel); any VIOLATED/UNDECIDED line is a false alarm.
set -u
export GOFLAGS=-mod=mod GOPROXY=off GOSUMDB=off GOTOOLCHAIN=local; unset GOWORK
D=$(realpath "$1"); W=${W:-/var/tmp/frp-mut}
reset() { git -C $W checkout -q -- . ; git -C $W clean -fdq; }
reset; cp /verif/known_findings.txt /tmp/ev-mut/ 2>/dev/null
git -C $W checkout -q --detach $(git -C /repo rev-parse HEAD)
if ! git -C $W apply "$D/patch.diff" 2>/dev/null; then echo "RESULT $1 patch=DOES-NOT-APPLY"; reset; exit 2; fi
(cd $W && go build ./... >/dev/null 2>&1) || { echo "RESULT $1 build=FAIL"; reset; exit 2; }
T=$(mktemp -d)
for P in $(seq -w 1 20); do
  ( mkdir -p $T/C$P; cp /verif/known_findings.txt $T/C$P/; ${BIN:-/verif/bin/frpsa} check -prop C$P -repo $W -verif $T/C$P 2>&1 | grep -E "^(VIOLATED|UNDECIDED|ERROR)" | cut -c1-260 > $T/out.$P ) &
done
wait
N=0
for P in $(seq -w 1 20); do if [ -s $T/out.$P ]; then cat $T/out.$P; N=$((N+1)); fi; done
rm -rf $T
echo "RESULT $1 false_alarm_properties=$N"
reset
