#!/usr/bin/env python3
"""keepseed.py <srcdir> <id> <property> <needs> <caught_by> : copy a confirmed seeded change into /verif/seeded/<id>/"""
import sys, os, shutil, json, subprocess
src, sid, prop, needs, caught = sys.argv[1:6]
dst = os.path.join('/verif/seeded', sid)
if os.path.exists(dst): shutil.rmtree(dst)
os.makedirs(dst)
shutil.copy(os.path.join(src, 'patch.diff'), dst)
if os.path.exists(os.path.join(src, 'demo')): shutil.copytree(os.path.join(src, 'demo'), os.path.join(dst, 'demo'))
if os.path.exists(os.path.join(src, 'README.md')): shutil.copy(os.path.join(src, 'README.md'), os.path.join(dst, 'AUTHOR_README.md'))
files = subprocess.run(['grep', '-h', '^+++ b/', os.path.join(dst, 'patch.diff')], capture_output=True, text=True).stdout.replace('+++ b/', '').split()
meta = {
 "id": sid, "property": prop, "breaks": prop, "files_changed": files,
 "needs_to_manifest": needs,
 "origin": "independent sub-agent given only the property text and a scratch worktree (nothing from /verif)",
 "confirmed_by": "tools/seedtest.sh in scratch worktree /var/tmp/frp-mut: go build ./... ok; pinned tests (go test -vet=off ./pkg/...) pass with the change; demo passes without the change and fails with it",
 "how_to_run_checks": "git -C /repo apply seeded/%s/patch.diff && ./bin/frpsa check -prop %s ; git -C /repo checkout -- ." % (sid, prop),
 "caught_by": caught,
}
json.dump(meta, open(os.path.join(dst, 'meta.json'), 'w'), indent=1)
print("kept", dst)
