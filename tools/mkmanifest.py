#!/usr/bin/env python3
"""Regenerates /verif/MANIFEST.json from the table below (one entry per claimed property)."""
import json, os, sys
V = os.path.dirname(os.path.dirname(os.path.abspath(__file__)))
props = [json.loads(l) for l in open(os.path.join(V, "properties.jsonl"))]

# id -> (technique, level text, level note, design ref)
CLAIMED = json.load(open(os.path.join(V, "tools", "claimed.json")))

ENV = "env -u GOWORK GOFLAGS=-mod=mod GOPROXY=off GOSUMDB=off GOTOOLCHAIN=local"
checks = []
na = []
for p in props:
    i = p["id"]
    if i in CLAIMED:
        cl = CLAIMED[i]
        checks.append({
            "property_id": i,
            "quick_cmd": f"./bin/frpsa check -prop {i} -tier quick",
            "thorough_cmd": f"./bin/frpsa check -prop {i} -tier thorough",
            "evidence_file": f"evidence/{i}.json",
            "replay_cmd_template": "./bin/frpsa replay {path}",
            "engine": "frpsa",
            "level_claimed": {"category": "other", "text": cl["text"], "design_ref": cl.get("design_ref", "DESIGN.md §4 " + i)},
            "level_note": cl["note"],
            "technique": cl["technique"],
        })
    else:
        na.append({"property_id": i, "reason": "check not built yet (static-analysis rules per DESIGN.md §4 are in progress)"})
m = {
    "version": 1,
    "setup_cmd": f"cd /verif/sa && {ENV} go build -o ../bin/frpsa ./cmd/frpsa",
    "hooks": {
        "guard": "verif",
        "enable": "none: static analysis reads /repo's source as built by default (and with -tags frps / -tags frpc in the thorough tier); no instrumentation is compiled in",
        "baseline_off_cmd": "cd /repo && GOFLAGS=-mod=mod GOPROXY=off GOSUMDB=off go test -json -vet=off -count=1 -timeout 25m ./...",
        "source_commits": [],
        "add_only": True,
    },
    "engines": [{"name": "frpsa", "path": "sa", "serves_properties": sorted(CLAIMED), "kind_free_text": "repository-specific static analyser: go/packages + go/types + go/ssa (x/tools v0.29.0); path-sensitive guard analysis, provenance slices, lock-held dataflow, table evaluation, sibling comparison"}],
    "checks": checks,
    "notes": "All checks are static: they load and type-check /repo's current working tree on every run and execute nothing. UNDECIDED obligations, missing anchors, type errors and analyzer panics fail the check. Known genuine defects are listed in known_findings.txt.",
    "not_applicable": na,
}
json.dump(m, open(os.path.join(V, "MANIFEST.json"), "w"), indent=1)
print("claimed", len(checks), "not_applicable", len(na))
