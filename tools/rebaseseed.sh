#!/bin/bash
# rebaseseed.sh <seeded-dir>: re-create patch.diff against /repo's current HEAD when context lines have moved
set -u
D=$(realpath "$1"); W=/var/tmp/frp-mut
git -C $W checkout -q -- . ; git -C $W clean -fdq; git -C $W checkout -q --detach $(git -C /repo rev-parse HEAD)
if git -C $W apply --check "$D/patch.diff" 2>/dev/null; then echo "applies cleanly: $D"; exit 0; fi
if (cd $W && patch -p1 -s -f --fuzz=3 --no-backup-if-mismatch -i "$D/patch.diff"); then
  git -C $W diff > "$D/patch.diff.new" && mv "$D/patch.diff.new" "$D/patch.diff" && echo "rebased: $D"
else
  echo "CANNOT REBASE: $D"
fi
git -C $W checkout -q -- . ; git -C $W clean -fdq
