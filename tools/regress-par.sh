#!/bin/bash
# parallel regress with frozen binary r11: seeds in worktree frp-mut2, benign in frp-mut
cd /verif
export BIN=/verif/bin/frpsa
(
for d in seeded/*/; do
  id=$(basename $d); prop=$(python3 -c "import json;print(json.load(open('$d/meta.json'))['property'])")
  n=$(W=/var/tmp/frp-mut2 PROPS=$prop tools/seedapply.sh $d | grep -c "^VIOLATED\|^UNDECIDED")
  if [ "$n" = "0" ]; then echo "SEED MISSED $id ($prop)"; fi
done; echo "seeds done" ) > /tmp/regress.seeds.log 2>&1 &
(
for d in benign/*/; do
  out=$(W=/var/tmp/frp-mut tools/benigntest.sh $d | grep -v "^RESULT")
  if [ -n "$out" ]; then echo "FALSE ALARM on $(basename $d):"; echo "$out" | cut -c1-220; fi
done; echo "benign done" ) > /tmp/regress.benign.log 2>&1 &
wait
echo ALLDONE
