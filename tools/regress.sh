#!/bin/bash
# Full regression of the checks: (1) every quick check on /repo passes; (2) every seeded change is reported by its own
# property's check; (3) no benign refactoring raises any alarm in any property. Uses the scratch worktree /var/tmp/frp-mut.
cd /verif
FAIL=0
for P in $(seq -w 1 20); do ./bin/frpsa check -prop C$P > /tmp/regress.out 2>&1 || { echo "QUICK FAIL C$P"; FAIL=1; }; done
for d in seeded/*/; do
  id=$(basename $d); prop=$(python3 -c "import json;print(json.load(open('$d/meta.json'))['property'])")
  n=$(SKIPDEMO=1 PROPS=$prop tools/seedapply.sh $d | grep -c "^VIOLATED\|^UNDECIDED")
  if [ "$n" = "0" ]; then echo "SEED MISSED $id ($prop)"; FAIL=1; fi
done
for d in benign/*/; do
  out=$(tools/benigntest.sh $d | grep -v "^RESULT")
  if [ -n "$out" ]; then echo "FALSE ALARM on $(basename $d):"; echo "$out" | cut -c1-200; FAIL=1; fi
done
echo "regress done fail=$FAIL"
