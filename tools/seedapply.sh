#!/bin/bash
# seedapply.sh <seeded-dir>: applies the patch in the scratch worktree and runs the checks in $PROPS (no demo run)
set -u
D=$(realpath "$1"); W=${W:-/var/tmp/frp-mut}
PROPS=${PROPS:-$(echo "$D" | grep -o "C[0-9][0-9]" | tail -1)}
git -C $W checkout -q -- . ; git -C $W clean -fdq; git -C $W checkout -q --detach $(git -C /repo rev-parse HEAD)
cp /verif/known_findings.txt /tmp/ev-mut/ 2>/dev/null
git -C $W apply "$D/patch.diff" || { echo "UNDECIDED patch does not apply"; exit 2; }
for P in $PROPS; do ${BIN:-/verif/bin/frpsa} check -prop $P -repo $W -verif /tmp/ev-mut 2>&1 | grep -E "^(VIOLATED|UNDECIDED)" | cut -c1-200; done
git -C $W checkout -q -- . ; git -C $W clean -fdq
