#!/bin/bash
# usage: seedtest.sh <seeded-dir>   (dir with patch.diff, demo/<relative paths>, optional meta.json)
# Confirms a seeded change in the scratch worktree /var/tmp/frp-mut: builds, pinned tests pass, demo passes without
# and fails with the change; then runs the frpsa checks given in $PROPS (default: property in dir name) on it.
set -u
export GOFLAGS=-mod=mod GOPROXY=off GOSUMDB=off GOTOOLCHAIN=local; unset GOWORK
D=$(realpath "$1"); W=/var/tmp/frp-mut
PROPS=${PROPS:-$(echo "$D" | grep -o "C[0-9][0-9]" | tail -1)}
reset() { git -C $W checkout -q -- . ; git -C $W clean -fdq; }
reset
git -C $W checkout -q --detach $(git -C /repo rev-parse HEAD)
# demo packages
PKGS=$(cd "$D/demo" 2>/dev/null && find . -name '*.go' -printf '%h\n' | sort -u)
cp -r "$D/demo/." $W/ 2>/dev/null
echo "== demo WITHOUT change"
for p in $PKGS; do (cd $W && go test -vet=off -count=1 -run "${DEMO_RUN:-.}" $p 2>&1 | tail -3); done
if ! git -C $W apply "$D/patch.diff"; then echo "PATCH DOES NOT APPLY"; reset; exit 2; fi
echo "== build + pinned tests WITH change"
(cd $W && go build ./... && go test -vet=off -count=1 -run "^Test[^DZ]" ./pkg/... 2>&1 | grep -v "no test files" | grep -v "^ok" | grep -v "^20" | head)
echo "== demo WITH change"
for p in $PKGS; do (cd $W && go test -vet=off -count=1 -run "${DEMO_RUN:-.}" $p 2>&1 | tail -4); done
# remove demo files before analysing (the checks read product code only; demos are test files anyway)
echo "== frpsa on the changed tree"
for P in $PROPS; do /verif/bin/frpsa check -prop $P -repo $W -verif /tmp/ev-mut 2>&1 | grep -E "^(VIOLATED|UNDECIDED|KNOWN|C[0-9]+ quick|ERROR)" ; done
reset
