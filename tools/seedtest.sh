#!/bin/bash
# usage: seedtest.sh <seeded-dir>   (dir with patch.diff, demo/<relative paths>)
# Confirms a seeded change in the scratch worktree /var/tmp/frp-mut (at /repo's HEAD): the change builds, the pinned
# tests pass with it, the demo fails with it and passes without it; then runs the frpsa checks in $PROPS on it.
set -u
export GOFLAGS=-mod=mod GOPROXY=off GOSUMDB=off GOTOOLCHAIN=local; unset GOWORK
D=$(realpath "$1"); W=${W:-/var/tmp/frp-mut}
PROPS=${PROPS:-$(echo "$D" | grep -o "C[0-9][0-9]" | tail -1)}
reset() { git -C $W checkout -q -- . ; git -C $W clean -fdq; }
reset; cp /verif/known_findings.txt /tmp/ev-mut/ 2>/dev/null
git -C $W checkout -q --detach $(git -C /repo rev-parse HEAD)
PKGS=$(cd "$D/demo" 2>/dev/null && find . -name '*.go' -printf '%h\n' | sort -u)
if ! git -C $W apply "$D/patch.diff"; then echo "RESULT patch=DOES-NOT-APPLY"; reset; exit 2; fi
B=ok; (cd $W && go build ./... >/dev/null 2>&1) || B=FAIL
T=ok; (cd $W && go test -vet=off -count=1 ./pkg/... 2>&1 | grep -q "^FAIL\|^---FAIL\|panic:") && T=FAIL
echo "== frpsa on the changed tree"
for P in $PROPS; do ${BIN:-/verif/bin/frpsa} check -prop $P -repo $W -verif /tmp/ev-mut 2>&1 | grep -E "^(VIOLATED|UNDECIDED|KNOWN|C[0-9]+ quick|ERROR)" | cut -c1-300; done
cp -r "$D/demo/." $W/ 2>/dev/null
WITH=pass; for p in $PKGS; do (cd $W && go test -vet=off -count=1 -run "${DEMO_RUN:-.}" $p 2>&1 | grep -q "^FAIL\|panic:") && WITH=fail; done
git -C $W apply -R "$D/patch.diff"
WITHOUT=pass; for p in $PKGS; do (cd $W && go test -vet=off -count=1 -run "${DEMO_RUN:-.}" $p 2>&1 | grep -q "^FAIL\|panic:") && WITHOUT=fail; done
echo "RESULT build=$B pinned=$T demo_with_change=$WITH demo_without_change=$WITHOUT  (want: ok ok fail pass)"
reset; cp /verif/known_findings.txt /tmp/ev-mut/ 2>/dev/null
